package dsim

import (
	"fmt"
	"runtime"
	"sort"
)

func goexit() { runtime.Goexit() }

func fmtKey(k any) string { return fmt.Sprintf("%v", k) }

func sortSlice[K any](keys []K, less func(a, b K) bool) {
	sort.SliceStable(keys, func(i, j int) bool { return less(keys[i], keys[j]) })
}

// Knobs: tuning constants of the code under test that a run may shrink. Outside a simulation,
// or when a run does not set the knob, the real value is used.
var knobValues = map[string]int{}

func SetKnobs(m map[string]int) {
	if m == nil {
		m = map[string]int{}
	}
	knobValues = m
}

// Knobs returns the current knob settings.
func Knobs() map[string]int { return knobValues }

func Knob(name string, def int) int {
	if v, ok := knobValues[name]; ok {
		return v
	}
	return def
}
