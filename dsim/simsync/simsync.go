// Package simsync provides sync primitives with the documented Go semantics that block through
// the simulator when one is active, and are the real ones otherwise.
package simsync

import (
	"sync"

	"dsim"
)

type Locker = sync.Locker

type Mutex struct {
	real sync.Mutex
	held bool
}

func (m *Mutex) Lock() {
	s := dsim.Active()
	if s == nil {
		m.real.Lock()
		return
	}
	if s.Stopping() {
		return
	}
	s.Yield("mutex.lock")
	for m.held {
		s.Block("mutex")
	}
	m.held = true
}

func (m *Mutex) TryLock() bool {
	s := dsim.Active()
	if s == nil {
		return m.real.TryLock()
	}
	if s.Stopping() {
		return true
	}
	s.Yield("mutex.trylock")
	if m.held {
		return false
	}
	m.held = true
	return true
}

func (m *Mutex) Unlock() {
	s := dsim.Active()
	if s == nil {
		m.real.Unlock()
		return
	}
	if s.Stopping() {
		m.held = false
		return
	}
	if !m.held {
		panic("sync: unlock of unlocked mutex")
	}
	m.held = false
	s.Progress()
	s.Yield("mutex.unlock")
}

// RWMutex follows the documented contract of sync.RWMutex: a blocked Lock excludes new readers.
type RWMutex struct {
	real           sync.RWMutex
	readers        int
	writer         bool
	writersWaiting int
	rholders       map[int]int // goroutine id -> read holds (for the nested-RLock probe)
}

func (m *RWMutex) RLock() {
	s := dsim.Active()
	if s == nil {
		m.real.RLock()
		return
	}
	if s.Stopping() {
		return
	}
	gid := s.Cur().ID()
	if m.rholders != nil && m.rholders[gid] > 0 {
		s.Probe("rwmutex.nested-rlock")
	}
	s.Yield("rw.rlock")
	for m.writer || m.writersWaiting > 0 {
		s.Block("rwmutex.RLock")
	}
	m.readers++
	if m.rholders == nil {
		m.rholders = map[int]int{}
	}
	m.rholders[gid]++
}

func (m *RWMutex) RUnlock() {
	s := dsim.Active()
	if s == nil {
		m.real.RUnlock()
		return
	}
	if s.Stopping() {
		if m.readers > 0 {
			m.readers--
		}
		return
	}
	if m.readers <= 0 {
		panic("sync: RUnlock of unlocked RWMutex")
	}
	m.readers--
	gid := s.Cur().ID()
	if m.rholders[gid] > 0 {
		m.rholders[gid]--
	}
	s.Progress()
	s.Yield("rw.runlock")
}

func (m *RWMutex) Lock() {
	s := dsim.Active()
	if s == nil {
		m.real.Lock()
		return
	}
	if s.Stopping() {
		return
	}
	s.Yield("rw.lock")
	m.writersWaiting++
	for m.writer || m.readers > 0 {
		s.Block("rwmutex.Lock")
	}
	m.writersWaiting--
	m.writer = true
}

func (m *RWMutex) Unlock() {
	s := dsim.Active()
	if s == nil {
		m.real.Unlock()
		return
	}
	if s.Stopping() {
		m.writer = false
		return
	}
	if !m.writer {
		panic("sync: Unlock of unlocked RWMutex")
	}
	m.writer = false
	s.Progress()
	s.Yield("rw.unlock")
}

func (m *RWMutex) RLocker() Locker { return (*rlocker)(m) }

type rlocker RWMutex

func (r *rlocker) Lock()   { (*RWMutex)(r).RLock() }
func (r *rlocker) Unlock() { (*RWMutex)(r).RUnlock() }

type WaitGroup struct {
	real sync.WaitGroup
	n    int
}

func (w *WaitGroup) Add(d int) {
	s := dsim.Active()
	if s == nil {
		w.real.Add(d)
		return
	}
	w.n += d
	if s.Stopping() {
		return
	}
	if w.n < 0 {
		panic("sync: negative WaitGroup counter")
	}
	s.Progress()
	s.Yield("wg.add")
}

func (w *WaitGroup) Done() { w.Add(-1) }

func (w *WaitGroup) Wait() {
	s := dsim.Active()
	if s == nil {
		w.real.Wait()
		return
	}
	if s.Stopping() {
		return
	}
	s.Yield("wg.wait")
	for w.n > 0 {
		s.Block("waitgroup")
	}
}

type Once struct {
	real sync.Once
	done bool
	m    Mutex
}

func (o *Once) Do(f func()) {
	s := dsim.Active()
	if s == nil {
		o.real.Do(f)
		return
	}
	if o.done {
		return
	}
	o.m.Lock()
	defer o.m.Unlock()
	if !o.done {
		defer func() { o.done = true }()
		f()
	}
}

// Pool: under simulation a LIFO free list; whether Get hands back a recycled object is a
// tape choice (immediate reuse is legal and is the interesting case).
type Pool struct {
	New  func() any
	real sync.Pool
	free []any
	once bool
	gen  uint64 // dsim.Generation() the free list belongs to
	mu   sync.Mutex
}

// sync resets the free list when a new scenario run has begun: a pool is process state, and a
// run must not depend on what earlier runs of the same worker process left in it (its replay
// happens in a fresh process).
func (p *Pool) sync() {
	if g := dsim.Generation(); g != p.gen {
		p.gen = g
		p.free = nil
	}
}

func (p *Pool) Get() any {
	s := dsim.Active()
	if s == nil || s.Stopping() {
		// outside a simulation (sequential checks call the code directly): the same free list,
		// reset per scenario run like inside, so that a run never sees what an earlier run of the
		// same worker process left in a pool and replays in a fresh process
		p.mu.Lock()
		defer p.mu.Unlock()
		p.sync()
		if n := len(p.free); n > 0 {
			x := p.free[n-1]
			p.free = p.free[:n-1]
			return x
		}
		if p.New != nil {
			return p.New()
		}
		return nil
	}
	s.Yield("pool.get")
	p.sync()
	if n := len(p.free); n > 0 && s.Tape().Intn(8) != 7 {
		x := p.free[n-1]
		p.free = p.free[:n-1]
		s.Probe("pool.reuse")
		return x
	}
	if p.New != nil {
		return p.New()
	}
	return nil
}

func (p *Pool) Put(x any) {
	s := dsim.Active()
	if s == nil || s.Stopping() {
		if x == nil {
			return
		}
		p.mu.Lock()
		defer p.mu.Unlock()
		p.sync()
		p.free = append(p.free, x)
		return
	}
	if x == nil {
		return
	}
	p.sync()
	p.free = append(p.free, x)
	s.Yield("pool.put")
}
