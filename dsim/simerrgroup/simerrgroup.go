// Package simerrgroup mirrors golang.org/x/sync/errgroup (Group, WithContext, SetLimit, Go,
// TryGo, Wait) on simulator primitives so that the goroutines it starts are schedulable.
package simerrgroup

import (
	"context"
	"fmt"

	"dsim"
	"dsim/simsync"
)

type token struct{}

type Group struct {
	cancel func(error)
	wg     simsync.WaitGroup
	sem    chan token
	once   simsync.Once
	err    error
}

func (g *Group) done() {
	if g.sem != nil {
		dsim.Recv(g.sem)
	}
	g.wg.Done()
}

func WithContext(ctx context.Context) (*Group, context.Context) {
	ctx, cancel := context.WithCancelCause(ctx)
	return &Group{cancel: func(e error) {
		cancel(e)
		if s := dsim.Active(); s != nil && !s.Stopping() {
			s.Progress()
		}
	}}, ctx
}

func (g *Group) Wait() error {
	g.wg.Wait()
	if g.cancel != nil {
		g.cancel(g.err)
	}
	return g.err
}

func (g *Group) Go(f func() error) {
	if g.sem != nil {
		dsim.Send(g.sem, token{})
	}
	g.wg.Add(1)
	dsim.Go("errgroup", func() {
		defer g.done()
		if err := f(); err != nil {
			g.once.Do(func() {
				g.err = err
				if g.cancel != nil {
					g.cancel(g.err)
				}
			})
		}
	})
}

func (g *Group) TryGo(f func() error) bool {
	if g.sem != nil {
		select {
		case g.sem <- token{}:
		default:
			return false
		}
	}
	g.wg.Add(1)
	dsim.Go("errgroup", func() {
		defer g.done()
		if err := f(); err != nil {
			g.once.Do(func() {
				g.err = err
				if g.cancel != nil {
					g.cancel(g.err)
				}
			})
		}
	})
	return true
}

func (g *Group) SetLimit(n int) {
	if n < 0 {
		g.sem = nil
		return
	}
	if len(g.sem) != 0 {
		panic(fmt.Errorf("errgroup: modify limit while %v goroutines in the group are still active", len(g.sem)))
	}
	g.sem = make(chan token, n)
}
