// Package simctx: context constructors whose deadlines run on the simulated clock and whose
// cancellation wakes simulated goroutines.
package simctx

import (
	"context"
	"time"

	"dsim"
)

type CancelFunc = context.CancelFunc
type Context = context.Context

func WithCancel(parent context.Context) (context.Context, context.CancelFunc) {
	ctx, cancel := context.WithCancel(parent)
	return ctx, func() {
		cancel()
		if s := dsim.Active(); s != nil && !s.Stopping() {
			s.Progress()
			s.Yield("ctx.cancel")
		}
	}
}

type deadlineCtx struct {
	context.Context
	deadline time.Time
	timedOut *bool
}

func (d *deadlineCtx) Deadline() (time.Time, bool) { return d.deadline, true }
func (d *deadlineCtx) Err() error {
	if e := d.Context.Err(); e != nil {
		if *d.timedOut {
			return context.DeadlineExceeded
		}
		return e
	}
	return nil
}

func WithDeadline(parent context.Context, t time.Time) (context.Context, context.CancelFunc) {
	s := dsim.Active()
	if s == nil {
		return context.WithDeadline(parent, t)
	}
	if pd, ok := parent.Deadline(); ok && pd.Before(t) {
		return WithCancel(parent)
	}
	ctx, cancel := context.WithCancel(parent)
	to := new(bool)
	d := &deadlineCtx{Context: ctx, deadline: t, timedOut: to}
	h := s.AfterFunc(t.Sub(s.Now()), func() {
		if ctx.Err() == nil {
			*to = true
			cancel()
		}
	})
	return d, func() {
		h.Stop()
		cancel()
		if s := dsim.Active(); s != nil && !s.Stopping() {
			s.Progress()
			s.Yield("ctx.cancel")
		}
	}
}

func WithTimeout(parent context.Context, d time.Duration) (context.Context, context.CancelFunc) {
	s := dsim.Active()
	if s == nil {
		return context.WithTimeout(parent, d)
	}
	return WithDeadline(parent, s.Now().Add(d))
}
