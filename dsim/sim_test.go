package dsim_test

import (
	"testing"
	"time"

	"dsim"
	"dsim/simerrgroup"
	"dsim/simsync"
	"dsim/simtime"
)

// nested RLock against a writer: deadlocks on some schedules, never on run-to-block from main.
func nested(mu *simsync.RWMutex) {
	mu.RLock()
	mu.RLock()
	mu.RUnlock()
	mu.RUnlock()
}

func TestDeadlockFoundAndDeterministic(t *testing.T) {
	count := func() (int, uint64) {
		dead := 0
		var agg uint64
		for seed := uint64(0); seed < 500; seed++ {
			tp := dsim.NewTape(seed)
			info := dsim.Run(tp, dsim.Config{}, func() {
				var mu simsync.RWMutex
				var wg simsync.WaitGroup
				wg.Add(2)
				dsim.Go("reader", func() { defer wg.Done(); nested(&mu) })
				dsim.Go("writer", func() { defer wg.Done(); mu.Lock(); mu.Unlock() })
				wg.Wait()
			})
			if info.Outcome == "deadlock" {
				dead++
			} else if info.Outcome != "ok" {
				t.Fatalf("seed %d: %s %s", seed, info.Outcome, info.Detail)
			}
			agg = agg*31 + info.TraceHash
			// replay must give the same trace
			info2 := dsim.Run(dsim.ReplayTape(seed, tp.Rec), dsim.Config{}, func() {
				var mu simsync.RWMutex
				var wg simsync.WaitGroup
				wg.Add(2)
				dsim.Go("reader", func() { defer wg.Done(); nested(&mu) })
				dsim.Go("writer", func() { defer wg.Done(); mu.Lock(); mu.Unlock() })
				wg.Wait()
			})
			if info2.TraceHash != info.TraceHash || info2.Outcome != info.Outcome {
				t.Fatalf("seed %d: replay diverged", seed)
			}
		}
		return dead, agg
	}
	d1, a1 := count()
	d2, a2 := count()
	if d1 == 0 || d1 == 500 {
		t.Fatalf("deadlocks: %d of 500", d1)
	}
	if d1 != d2 || a1 != a2 {
		t.Fatalf("nondeterministic: %d/%d %d/%d", d1, d2, a1, a2)
	}
	t.Logf("deadlocks %d/500", d1)
}

func TestTimersAndChannels(t *testing.T) {
	for seed := uint64(0); seed < 200; seed++ {
		var got []int
		info := dsim.Run(dsim.NewTape(seed), dsim.Config{}, func() {
			c := make(chan int)
			var g simerrgroup.Group
			g.SetLimit(2)
			dsim.Go("closer", func() {
				for i := 0; i < 4; i++ {
					i := i
					g.Go(func() error {
						simtime.Sleep(time.Duration(i+1) * time.Second)
						dsim.Send(c, i)
						return nil
					})
				}
				g.Wait()
				dsim.Close(c)
			})
			for {
				v, ok := dsim.Recv2(c)
				if !ok {
					break
				}
				got = append(got, v)
			}
			tm := simtime.After(time.Minute)
			dsim.Recv(tm)
		})
		if info.Outcome != "ok" || len(got) != 4 {
			t.Fatalf("seed %d: %s %v %v", seed, info.Outcome, got, info.Blocked)
		}
		if info.SimTime < time.Minute {
			t.Fatalf("sim time %v", info.SimTime)
		}
	}
}

func TestPanicAndTeardown(t *testing.T) {
	info := dsim.Run(dsim.NewTape(1), dsim.Config{}, func() {
		var mu simsync.Mutex
		dsim.Go("stuck", func() {
			mu.Lock()
			defer mu.Unlock()
			dsim.Recv(make(chan int))
		})
		dsim.Go("boom", func() { var m map[int]int; m[1] = 1 })
		simtime.Sleep(time.Second)
	})
	if info.Outcome != "panic" {
		t.Fatalf("%s", info.Outcome)
	}
	if info.Leaked != 0 {
		t.Fatalf("leaked %d", info.Leaked)
	}
	t.Log(info.PanicTop)
}
