// Package dsim is a small deterministic-simulation kernel: a choice tape (the only
// source of nondeterminism), a baton scheduler over real goroutines, a simulated
// clock, and the bookkeeping (trace hash, schedule signature, probes, fault counters)
// that the checks report as evidence.
package dsim

import (
	"encoding/binary"
	"hash/fnv"
)

// Rand is a small PCG-style generator (splitmix64 core). Deterministic, no global state.
type Rand struct{ s uint64 }

func NewRand(seed uint64) *Rand { return &Rand{s: seed*0x9E3779B97F4A7C15 + 0x632BE59BD9B4E019} }

func (r *Rand) Uint64() uint64 {
	r.s += 0x9E3779B97F4A7C15
	z := r.s
	z = (z ^ (z >> 30)) * 0xBF58476D1CE4E5B9
	z = (z ^ (z >> 27)) * 0x94D049BB133111EB
	return z ^ (z >> 31)
}

func (r *Rand) Intn(n int) int {
	if n <= 1 {
		return 0
	}
	return int(r.Uint64() % uint64(n))
}

func (r *Rand) Float() float64 { return float64(r.Uint64()>>11) / float64(1<<53) }

func (r *Rand) Bytes(n int) []byte {
	b := make([]byte, n)
	for i := 0; i < n; i += 8 {
		var tmp [8]byte
		binary.LittleEndian.PutUint64(tmp[:], r.Uint64())
		copy(b[i:], tmp[:])
	}
	return b
}

// Perm returns a permutation of [0,n).
func (r *Rand) Perm(n int) []int {
	p := make([]int, n)
	for i := range p {
		p[i] = i
	}
	for i := n - 1; i > 0; i-- {
		j := r.Intn(i + 1)
		p[i], p[j] = p[j], p[i]
	}
	return p
}

// Mix derives a run seed from a base seed and an index.
func Mix(a, b uint64) uint64 {
	r := NewRand(a ^ (b+1)*0xD6E8FEB86659FD93)
	r.Uint64()
	return r.Uint64()
}

// Tape is the record of every choice of a run. In search mode values come from the
// PRNG and are appended; in replay mode they are read back (clamped to the range asked
// for, 0 once the tape is exhausted). 0 is always the "boring" choice, which is what makes
// tape-level shrinking (delete / zero / halve) effective.
type Tape struct {
	Seed    uint64
	rng     *Rand
	Rec     []uint32 // values in draw order (search: recorded; replay: as actually used)
	replay  []uint32
	pos     int
	Replay  bool
	Overrun int // replay draws past the end of the tape
}

func NewTape(seed uint64) *Tape { return &Tape{Seed: seed, rng: NewRand(seed)} }

func ReplayTape(seed uint64, vals []uint32) *Tape {
	return &Tape{Seed: seed, rng: NewRand(seed), replay: vals, Replay: true}
}

// Draw is the only primitive: in search mode gen picks a value in [0,n), in replay mode
// the next recorded value is used. n<=1 never touches the tape.
func (t *Tape) Draw(n int, gen func(r *Rand) int) int {
	if n <= 1 {
		return 0
	}
	var v int
	if t.Replay {
		if t.pos < len(t.replay) {
			v = int(t.replay[t.pos])
			t.pos++
			if v >= n {
				v = v % n
			}
		} else {
			t.Overrun++
			v = 0
		}
	} else {
		v = gen(t.rng)
		if v < 0 || v >= n {
			v = 0
		}
	}
	if len(t.Rec) > 4000000 {
		panic("dsim: tape runaway (more than 4 000 000 draws in one run): a generator loop is not terminating")
	}
	t.Rec = append(t.Rec, uint32(v))
	return v
}

// Intn draws uniformly from [0,n).
func (t *Tape) Intn(n int) int { return t.Draw(n, func(r *Rand) int { return r.Intn(n) }) }

// Range draws uniformly from [lo,hi].
func (t *Tape) Range(lo, hi int) int {
	if hi <= lo {
		return lo
	}
	return lo + t.Intn(hi-lo+1)
}

// Bool is true with probability p (search mode); recorded as 0/1 with 0 = false.
func (t *Tape) Bool(p float64) bool {
	return t.Draw(2, func(r *Rand) int {
		if r.Float() < p {
			return 1
		}
		return 0
	}) == 1
}

// Biased returns 0 with probability p0, otherwise uniform in [1,n).
func (t *Tape) Biased(n int, p0 float64) int {
	return t.Draw(n, func(r *Rand) int {
		if r.Float() < p0 {
			return 0
		}
		return 1 + r.Intn(n-1)
	})
}

// Pick returns one of the given ints; the first is the "boring" one.
func (t *Tape) Pick(vals ...int) int { return vals[t.Intn(len(vals))] }

// SubRand draws one 24-bit value from the tape and returns a PRNG derived from it. Used for
// bulk data (payload bytes, key material) so that tapes stay short and shrinkable.
func (t *Tape) SubRand() *Rand {
	v := t.Draw(1<<24, func(r *Rand) int { return r.Intn(1 << 24) })
	return NewRand(uint64(v)*0x9E3779B1 + 0x1234567)
}

// Perm draws a permutation (identity is the all-zero choice).
func (t *Tape) Perm(n int) []int {
	p := make([]int, n)
	for i := range p {
		p[i] = i
	}
	for i := 0; i < n-1; i++ {
		j := i + t.Intn(n-i)
		p[i], p[j] = p[j], p[i]
	}
	return p
}

func HashBytes(b []byte) uint64 {
	h := fnv.New64a()
	h.Write(b)
	return h.Sum64()
}
