module dsim

go 1.21
