package dsim

import (
	"reflect"
)

// Map access guard: the simulated counterpart of the Go runtime's "concurrent map writes" /
// "concurrent map read and map write" check. The baton serialises goroutines, so an unprotected
// map can never be corrupted inside a simulation; what can be observed exactly is that two
// goroutines are *enabled* at accesses of the same map at once, one of them a write. Every guarded
// access announces itself, parks at a scheduling point with the announcement standing (holding
// whatever locks the code holds there), and withdraws it when it is resumed. An access that finds
// another goroutine's announcement, one of the two being a write, is a pair of accesses that no
// lock, channel or other happens-before edge orders: under real threads the runtime may kill the
// process (fatal error, not recoverable) or the map is corrupted.
//
// Sound by construction: the second goroutine reached its access while the first was parked
// immediately before its own, so both accesses are simultaneously enabled in a real execution.

type mapAcc struct {
	g     *G
	write bool
	site  string
}

func mapAccess(m any, write bool, site string) {
	s := Active()
	if s == nil || s.Stopping() || s.cur == nil {
		return
	}
	p := reflect.ValueOf(m).Pointer()
	if p == 0 {
		return
	}
	me := s.cur
	if s.mapWin == nil {
		s.mapWin = map[uintptr][]mapAcc{}
	}
	for _, a := range s.mapWin[p] {
		if a.g != me && (a.write || write) {
			x, y := a, mapAcc{me, write, site}
			if y.site < x.site || (y.site == x.site && !y.write && x.write) {
				x, y = y, x
			}
			s.Probe("mapguard.conflict")
			s.Fail("race", "unsynchronised map access: "+kindOf(x.write)+" at "+x.site+" with "+kindOf(y.write)+" at "+y.site,
				"goroutine "+a.g.name+" is parked immediately before a map "+kindOf(a.write)+" at "+a.site+
					" while goroutine "+me.name+" performs a map "+kindOf(write)+" on the same map at "+site+
					"; nothing orders the two (real threads: fatal error \"concurrent map "+fatalKind(a.write, write)+"\" or a corrupted map)")
			return
		}
	}
	s.mapWin[p] = append(s.mapWin[p], mapAcc{me, write, site})
	s.Probe("mapguard.access")
	s.Yield("map")
	w := s.mapWin[p]
	for i := range w {
		if w[i].g == me && w[i].site == site && w[i].write == write {
			w = append(w[:i], w[i+1:]...)
			break
		}
	}
	if len(w) == 0 {
		delete(s.mapWin, p)
	} else {
		s.mapWin[p] = w
	}
}

func kindOf(w bool) string {
	if w {
		return "write"
	}
	return "read"
}

func fatalKind(a, b bool) string {
	if a && b {
		return "writes"
	}
	return "read and map write"
}

// MapR guards a map read (index expression used as a value) and returns the map.
func MapR[M ~map[K]V, K comparable, V any](m M, site string) M {
	mapAccess(m, false, site)
	return m
}

// MapW guards a map write (assignment to an element, delete, ++/--) and returns the map.
func MapW[M ~map[K]V, K comparable, V any](m M, site string) M {
	mapAccess(m, true, site)
	return m
}

// MapIterG is MapIter whose every step is a guarded read of the map.
func MapIterG[K comparable, V any, M ~map[K]V](m M, site string) *MapIterator[K, V] {
	mapAccess(m, false, site)
	it := MapIter[K, V, M](m)
	it.site = site
	return it
}
