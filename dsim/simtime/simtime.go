// Package simtime provides the parts of package time that read or wait on the clock, on the
// simulated clock when a simulation is active.
package simtime

import (
	"time"

	"dsim"
)

func Now() time.Time {
	if s := dsim.Active(); s != nil {
		return s.Now()
	}
	return time.Now()
}

func Since(t time.Time) time.Duration { return Now().Sub(t) }
func Until(t time.Time) time.Duration { return t.Sub(Now()) }

func Sleep(d time.Duration) {
	if s := dsim.Active(); s != nil {
		s.Sleep(d)
		return
	}
	time.Sleep(d)
}

func After(d time.Duration) <-chan time.Time {
	s := dsim.Active()
	if s == nil {
		return time.After(d)
	}
	c := make(chan time.Time, 1)
	s.AfterFunc(d, func() {
		select {
		case c <- s.Now():
		default:
		}
	})
	return c
}

func Tick(d time.Duration) <-chan time.Time { return NewTicker(d).C }

type Timer struct {
	C    <-chan time.Time
	c    chan time.Time
	h    dsim.TimerHandle
	real *time.Timer
	f    func()
}

func NewTimer(d time.Duration) *Timer {
	s := dsim.Active()
	if s == nil {
		rt := time.NewTimer(d)
		return &Timer{C: rt.C, real: rt}
	}
	t := &Timer{c: make(chan time.Time, 1)}
	t.C = t.c
	t.arm(s, d)
	return t
}

func (t *Timer) arm(s *dsim.Sim, d time.Duration) {
	t.h = s.AfterFunc(d, func() {
		if t.f != nil {
			f := t.f
			s.Go("afterfunc", f)
			return
		}
		select {
		case t.c <- s.Now():
		default:
		}
	})
}

func AfterFunc(d time.Duration, f func()) *Timer {
	s := dsim.Active()
	if s == nil {
		return &Timer{real: time.AfterFunc(d, f)}
	}
	t := &Timer{f: f}
	// the callback must run as its own goroutine; timers fire in scheduler context, so start
	// it from there without yielding.
	t.h = s.AfterFunc(d, func() { s.GoNoYield("afterfunc", f) })
	return t
}

func (t *Timer) Stop() bool {
	if t.real != nil {
		return t.real.Stop()
	}
	return t.h.Stop()
}

func (t *Timer) Reset(d time.Duration) bool {
	if t.real != nil {
		return t.real.Reset(d)
	}
	s := dsim.Active()
	was := t.h.Stop()
	if s != nil {
		if t.f != nil {
			f := t.f
			t.h = s.AfterFunc(d, func() { s.GoNoYield("afterfunc", f) })
		} else {
			t.arm(s, d)
		}
	}
	return was
}

type Ticker struct {
	C       <-chan time.Time
	c       chan time.Time
	h       dsim.TimerHandle
	real    *time.Ticker
	stopped bool
}

func NewTicker(d time.Duration) *Ticker {
	if d <= 0 {
		panic("non-positive interval for NewTicker")
	}
	s := dsim.Active()
	if s == nil {
		rt := time.NewTicker(d)
		return &Ticker{C: rt.C, real: rt}
	}
	t := &Ticker{c: make(chan time.Time, 1)}
	t.C = t.c
	var arm func()
	arm = func() {
		t.h = s.AfterFunc(d, func() {
			if t.stopped {
				return
			}
			select {
			case t.c <- s.Now():
			default:
			}
			arm()
		})
	}
	arm()
	return t
}

func (t *Ticker) Stop() {
	if t.real != nil {
		t.real.Stop()
		return
	}
	t.stopped = true
	t.h.Stop()
}

func (t *Ticker) Reset(d time.Duration) {
	if t.real != nil {
		t.real.Reset(d)
		return
	}
	panic("simtime: Ticker.Reset not modelled")
}
