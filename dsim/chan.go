package dsim

import (
	"reflect"
	"sort"
)

// Channel operations stay real Go channel operations wherever a non-blocking attempt can
// succeed (buffered data, closed channels, a real goroutine already blocked on the other side).
// Two polling goroutines can never meet on an unbuffered channel, so for capacity-0 channels
// the simulator also keeps a wait table per channel and hands the value over directly when a
// simulated sender and a simulated receiver meet (FIFO among waiters, as in the Go runtime).

type waiter struct {
	g    *G
	val  any
	ok   bool // receive result: value was sent (true) — false only via close, which is handled by polling
	done bool
	sel  *selState
	idx  int
}

type selState struct {
	fired int
	val   any
	ws    []*waiter
}

type chanState struct {
	sendq, recvq []*waiter
}

func (s *Sim) chanState(p uintptr) *chanState {
	if s.chans == nil {
		s.chans = map[uintptr]*chanState{}
	}
	cs := s.chans[p]
	if cs == nil {
		cs = &chanState{}
		s.chans[p] = cs
	}
	return cs
}

func popWaiter(q *[]*waiter, notSel *selState) *waiter {
	for i, w := range *q {
		if w.done || (w.sel != nil && (w.sel.fired >= 0 || w.sel == notSel)) {
			continue
		}
		*q = append((*q)[:i:i], (*q)[i+1:]...)
		return w
	}
	return nil
}

func removeWaiter(q *[]*waiter, w *waiter) {
	for i, x := range *q {
		if x == w {
			*q = append((*q)[:i:i], (*q)[i+1:]...)
			return
		}
	}
}

func (s *Sim) complete(w *waiter) {
	w.done = true
	if w.sel != nil {
		w.sel.fired = w.idx
		w.sel.val = w.val
	}
	s.progress++
}

// Send performs c <- v.
func Send[T any](c chan<- T, v T) {
	s := Active()
	if s == nil {
		c <- v
		return
	}
	if s.Stopping() {
		select {
		case c <- v:
		default:
		}
		return
	}
	s.Yield("send")
	if c == nil {
		for {
			s.Block("send on nil channel")
		}
	}
	if cap(c) > 0 {
		for {
			select {
			case c <- v:
				s.Progress()
				return
			default:
				s.Block("chan send")
			}
		}
	}
	cs := s.chanState(reflect.ValueOf(c).Pointer())
	var w *waiter
	for {
		if w != nil && w.done {
			return
		}
		select {
		case c <- v: // a real goroutine is blocked receiving (or the channel is closed: panics, as Go does)
			if w != nil {
				removeWaiter(&cs.sendq, w)
			}
			s.Progress()
			return
		default:
		}
		if w == nil {
			if r := popWaiter(&cs.recvq, nil); r != nil {
				r.val, r.ok = v, true
				s.complete(r)
				return
			}
			w = &waiter{g: s.cur, val: v}
			cs.sendq = append(cs.sendq, w)
		}
		s.Block("chan send")
	}
}

// SendTo(c)(v) is c <- v with the element type inferred from the channel alone, so that v only
// needs to be assignable to it (what the rewriter emits).
func SendTo[T any](c chan<- T) func(T) { return func(v T) { Send(c, v) } }

// SendCaseTo(c)(v): see SendTo.
func SendCaseTo[T any](c chan<- T) func(T) SelCase {
	return func(v T) SelCase { return SendCase(c, v) }
}

// Recv performs <-c.
func Recv[T any](c <-chan T) T {
	v, _ := Recv2(c)
	return v
}

// Recv2 performs v, ok := <-c.
func Recv2[T any](c <-chan T) (T, bool) {
	s := Active()
	if s == nil {
		v, ok := <-c
		return v, ok
	}
	if s.Stopping() {
		select {
		case v, ok := <-c:
			return v, ok
		default:
			var z T
			return z, false
		}
	}
	s.Yield("recv")
	if c == nil {
		for {
			s.Block("recv on nil channel")
		}
	}
	if cap(c) > 0 {
		for {
			select {
			case v, ok := <-c:
				s.Progress()
				return v, ok
			default:
				s.Block("chan recv")
			}
		}
	}
	cs := s.chanState(reflect.ValueOf(c).Pointer())
	var w *waiter
	for {
		if w != nil && w.done {
			v, _ := w.val.(T)
			return v, true
		}
		select {
		case v, ok := <-c:
			if w != nil {
				removeWaiter(&cs.recvq, w)
			}
			s.Progress()
			return v, ok
		default:
		}
		if w == nil {
			if x := popWaiter(&cs.sendq, nil); x != nil {
				s.complete(x)
				v, _ := x.val.(T)
				return v, true
			}
			w = &waiter{g: s.cur}
			cs.recvq = append(cs.recvq, w)
		}
		s.Block("chan recv")
	}
}

// Close performs close(c).
func Close[T any](c chan<- T) {
	close(c)
	if s := Active(); s != nil && !s.Stopping() {
		s.Progress()
		s.Yield("close")
	}
}

// Len is len(c) with a scheduling point in front (the value read may be stale by the time
// it is used; that is the point).
func Len[T any](c chan T) int {
	if s := Active(); s != nil && !s.Stopping() {
		s.Yield("chanlen")
	}
	return len(c)
}

// SelCase is one communication clause of a select statement.
type SelCase struct {
	send bool
	ch   reflect.Value
	val  reflect.Value
}

func RecvCase[T any](c <-chan T) SelCase { return SelCase{ch: reflect.ValueOf(c)} }
func SendCase[T any](c chan<- T, v T) SelCase {
	return SelCase{send: true, ch: reflect.ValueOf(c), val: reflect.ValueOf(&v).Elem()}
}

// Sel receives the value and ok flag of the receive clause a Select took.
type Sel struct {
	Val any
	OK  bool
}

// RecvVal converts the value received by Select back to the element type of c.
func RecvVal[T any](c <-chan T, sel *Sel) T {
	x, _ := sel.Val.(T)
	return x
}

// Select executes a select statement; it returns the index of the clause taken (-1 = default).
func Select(sel *Sel, hasDefault bool, cases ...SelCase) int {
	i, v, ok := selectImpl(hasDefault, cases...)
	if sel != nil {
		sel.Val, sel.OK = v, ok
	}
	return i
}

func rvAny(v reflect.Value) any {
	if !v.IsValid() {
		return nil
	}
	return v.Interface()
}

func selectImpl(hasDefault bool, cases ...SelCase) (int, any, bool) {
	s := Active()
	if s == nil || s.Stopping() {
		rc := make([]reflect.SelectCase, 0, len(cases)+1)
		for _, c := range cases {
			if c.send {
				rc = append(rc, reflect.SelectCase{Dir: reflect.SelectSend, Chan: c.ch, Send: c.val})
			} else {
				rc = append(rc, reflect.SelectCase{Dir: reflect.SelectRecv, Chan: c.ch})
			}
		}
		if hasDefault || s != nil {
			rc = append(rc, reflect.SelectCase{Dir: reflect.SelectDefault})
		}
		i, v, ok := reflect.Select(rc)
		if i == len(cases) {
			if s != nil && !hasDefault {
				goexit() // being torn down while blocked in a select
			}
			return -1, nil, false
		}
		return i, rvAny(v), ok
	}
	s.Yield("select")
	n := len(cases)
	var st *selState
	for {
		var order []int
		if n > 1 {
			order = s.tape.Perm(n)
		} else if n == 1 {
			order = []int{0}
		}
		if st != nil && st.fired >= 0 {
			i := st.fired
			s.selCleanup(cases, st)
			return i, st.val, true
		}
		for _, i := range order {
			c := cases[i]
			if !c.ch.IsValid() || c.ch.IsNil() {
				continue
			}
			if c.send {
				if c.ch.TrySend(c.val) {
					s.selCleanup(cases, st)
					s.Progress()
					return i, nil, false
				}
				if c.ch.Cap() == 0 {
					cs := s.chanState(c.ch.Pointer())
					if r := popWaiter(&cs.recvq, st); r != nil {
						r.val, r.ok = rvAny(c.val), true
						s.complete(r)
						s.selCleanup(cases, st)
						return i, nil, false
					}
				}
			} else {
				v, ok := c.ch.TryRecv()
				if ok || v.IsValid() { // received, or closed (zero value, ok=false)
					s.selCleanup(cases, st)
					s.Progress()
					return i, rvAny(v), ok
				}
				if c.ch.Cap() == 0 {
					cs := s.chanState(c.ch.Pointer())
					if x := popWaiter(&cs.sendq, st); x != nil {
						s.complete(x)
						s.selCleanup(cases, st)
						return i, x.val, true
					}
				}
			}
		}
		if hasDefault {
			return -1, nil, false
		}
		if st == nil {
			st = &selState{fired: -1}
			for i, c := range cases {
				if !c.ch.IsValid() || c.ch.IsNil() || c.ch.Cap() != 0 {
					continue
				}
				cs := s.chanState(c.ch.Pointer())
				w := &waiter{g: s.cur, sel: st, idx: i}
				if c.send {
					w.val = rvAny(c.val)
					cs.sendq = append(cs.sendq, w)
				} else {
					cs.recvq = append(cs.recvq, w)
				}
				st.ws = append(st.ws, w)
			}
		}
		s.Block("select")
	}
}

func (s *Sim) selCleanup(cases []SelCase, st *selState) {
	if st == nil {
		return
	}
	for _, w := range st.ws {
		c := cases[w.idx]
		cs := s.chanState(c.ch.Pointer())
		if c.send {
			removeWaiter(&cs.sendq, w)
		} else {
			removeWaiter(&cs.recvq, w)
		}
	}
}

// InSim reports whether the caller runs under an active simulation (used by rewritten selects:
// outside a simulation the original blocking select must run).
func InSim() bool { return Active() != nil }

// Go starts fn as a simulated goroutine (a plain goroutine outside a simulation).
func Go(name string, fn func()) {
	if s := Active(); s != nil {
		s.Go(name, fn)
		return
	}
	go fn()
}

// Y is a statement-boundary scheduling point.
func Y() {
	if s := Active(); s != nil && !s.Stopping() && s.stmtYields {
		s.Yield("stmt")
	}
}

// MapKeys returns the keys of m in an order drawn from the tape (any order is legal Go).
func MapKeys[K comparable, V any](m map[K]V) []K {
	keys := make([]K, 0, len(m))
	for k := range m {
		keys = append(keys, k)
	}
	s := Active()
	if s == nil || s.Stopping() || len(keys) < 2 {
		return keys
	}
	// Go's own order is random: first make it canonical (sort by formatted key), then permute
	// from the tape, so the order is a function of the tape only.
	sortKeys(keys)
	var p []int
	if len(keys) <= 24 {
		p = s.tape.Perm(len(keys))
	} else {
		// a large map: one draw seeds the permutation (a draw per element makes code that ranges
		// over a growing map quadratic in tape length); 0 is the canonical order
		seed := s.tape.Intn(1 << 30)
		p = make([]int, len(keys))
		for i := range p {
			p[i] = i
		}
		if seed != 0 {
			r := NewRand(uint64(seed))
			for i := 0; i < len(p)-1; i++ {
				j := i + r.Intn(len(p)-i)
				p[i], p[j] = p[j], p[i]
			}
		}
	}
	out := make([]K, len(keys))
	for i, j := range p {
		out[i] = keys[j]
	}
	return out
}

// MapIterator iterates a map in tape order with Go's "deleted entries are not produced" rule.
type MapIterator[K comparable, V any] struct {
	m    map[K]V
	keys []K
	i    int
	K    K
	V    V
	site string // non-empty: every step is a guarded read (mapguard.go)
}

func MapIter[K comparable, V any, M ~map[K]V](m M) *MapIterator[K, V] {
	return &MapIterator[K, V]{m: m, keys: MapKeys(map[K]V(m))}
}

func (it *MapIterator[K, V]) Next() bool {
	if it.site != "" && it.i > 0 && it.i < len(it.keys) {
		mapAccess(it.m, false, it.site)
	}
	for it.i < len(it.keys) {
		k := it.keys[it.i]
		it.i++
		if v, ok := it.m[k]; ok {
			it.K, it.V = k, v
			return true
		}
	}
	return false
}

func sortKeys[K comparable](keys []K) {
	if len(keys) < 2 {
		return
	}
	rv := reflect.ValueOf(keys[0])
	less := func(a, b K) bool { return fmtKey(a) < fmtKey(b) }
	switch rv.Kind() {
	case reflect.Int, reflect.Int8, reflect.Int16, reflect.Int32, reflect.Int64:
		less = func(a, b K) bool { return reflect.ValueOf(a).Int() < reflect.ValueOf(b).Int() }
	case reflect.Uint, reflect.Uint8, reflect.Uint16, reflect.Uint32, reflect.Uint64:
		less = func(a, b K) bool { return reflect.ValueOf(a).Uint() < reflect.ValueOf(b).Uint() }
	case reflect.String:
		less = func(a, b K) bool { return reflect.ValueOf(a).String() < reflect.ValueOf(b).String() }
	}
	switch rv.Kind() {
	case reflect.Int, reflect.Int8, reflect.Int16, reflect.Int32, reflect.Int64,
		reflect.Uint, reflect.Uint8, reflect.Uint16, reflect.Uint32, reflect.Uint64, reflect.String:
		sortSlice(keys, less)
		return
	}
	// other key types: format every key once, not once per comparison
	type dk struct {
		k K
		s string
	}
	d := make([]dk, len(keys))
	for i, k := range keys {
		d[i] = dk{k, fmtKey(k)}
	}
	sort.Slice(d, func(i, j int) bool { return d[i].s < d[j].s })
	for i := range d {
		keys[i] = d[i].k
	}
}
