// Package simsingleflight mirrors golang.org/x/sync/singleflight (Group.Do, DoChan, Forget) on
// simulator primitives: a caller that joins a flight parks in the scheduler instead of blocking
// the one runnable goroutine on a real WaitGroup.
package simsingleflight

import (
	"dsim/simsync"
)

type call struct {
	wg   simsync.WaitGroup
	val  any
	err  error
	dups int
}

// Result is what DoChan delivers.
type Result struct {
	Val    any
	Err    error
	Shared bool
}

type Group struct {
	mu simsync.Mutex
	m  map[string]*call
}

func (g *Group) Do(key string, fn func() (any, error)) (v any, err error, shared bool) {
	g.mu.Lock()
	if g.m == nil {
		g.m = make(map[string]*call)
	}
	if c, ok := g.m[key]; ok {
		c.dups++
		g.mu.Unlock()
		c.wg.Wait()
		return c.val, c.err, true
	}
	c := new(call)
	c.wg.Add(1)
	g.m[key] = c
	g.mu.Unlock()

	func() {
		defer func() {
			g.mu.Lock()
			if g.m[key] == c {
				delete(g.m, key)
			}
			g.mu.Unlock()
			c.wg.Done()
		}()
		c.val, c.err = fn()
	}()
	return c.val, c.err, c.dups > 0
}

func (g *Group) DoChan(key string, fn func() (any, error)) <-chan Result {
	ch := make(chan Result, 1)
	v, err, shared := g.Do(key, fn)
	ch <- Result{v, err, shared}
	return ch
}

func (g *Group) Forget(key string) {
	g.mu.Lock()
	delete(g.m, key)
	g.mu.Unlock()
}
