// Package simos is the simulated disk: real files (so mmap and third-party readers keep
// working) behind a File type that consults the fault plan on every call. Without an active
// simulation or plan it is a thin pass-through.
package simos

import (
	"errors"
	"io"
	"io/fs"
	"os"
	"syscall"
	"time"

	"dsim"
	"dsim/fault"
)

var (
	ErrIO    = &fs.PathError{Op: "io", Path: "simos", Err: syscall.EIO}
	ErrNoSpc = &fs.PathError{Op: "write", Path: "simos", Err: syscall.ENOSPC}
)

type FileInfo = os.FileInfo
type FileMode = os.FileMode

type File struct {
	f    *os.File
	path string
}

func y(op string) {
	if s := dsim.Active(); s != nil && !s.Stopping() {
		s.Yield(op)
	}
}

func latency() {
	if fault.Fire("disk-latency") {
		if s := dsim.Active(); s != nil {
			s.Sleep(time.Duration(1+fault.Intn(500)) * time.Millisecond)
		}
	}
}

func wrap(f *os.File, err error) (*File, error) {
	if err != nil {
		return nil, err
	}
	return &File{f: f, path: f.Name()}, nil
}

// Real gives harness code access to the underlying file.
func (f *File) Real() *os.File { return f.f }

func Create(name string) (*File, error) {
	y("os.create")
	if fault.Fire("disk-open-err") {
		return nil, &fs.PathError{Op: "open", Path: name, Err: syscall.EIO}
	}
	return wrap(os.Create(name))
}

func Open(name string) (*File, error) {
	y("os.open")
	if fault.Fire("disk-open-err") {
		return nil, &fs.PathError{Op: "open", Path: name, Err: syscall.EIO}
	}
	return wrap(os.Open(name))
}

func OpenFile(name string, flag int, perm os.FileMode) (*File, error) {
	y("os.openfile")
	if fault.Fire("disk-open-err") {
		return nil, &fs.PathError{Op: "open", Path: name, Err: syscall.EIO}
	}
	return wrap(os.OpenFile(name, flag, perm))
}

func CreateTemp(dir, pattern string) (*File, error) {
	y("os.createtemp")
	if fault.Fire("disk-open-err") {
		return nil, &fs.PathError{Op: "open", Path: dir, Err: syscall.EIO}
	}
	return wrap(os.CreateTemp(dir, pattern))
}

func MkdirTemp(dir, pattern string) (string, error) {
	y("os.mkdirtemp")
	if fault.Fire("disk-mkdir-err") {
		return "", &fs.PathError{Op: "mkdir", Path: dir, Err: syscall.ENOSPC}
	}
	return os.MkdirTemp(dir, pattern)
}

func ReadFile(name string) ([]byte, error) {
	y("os.readfile")
	if fault.Fire("disk-read-err") {
		return nil, &fs.PathError{Op: "read", Path: name, Err: syscall.EIO}
	}
	return os.ReadFile(name)
}

func WriteFile(name string, data []byte, perm os.FileMode) error {
	y("os.writefile")
	if fault.Fire("disk-write-err") {
		return &fs.PathError{Op: "write", Path: name, Err: syscall.EIO}
	}
	return os.WriteFile(name, data, perm)
}

func (f *File) Name() string { return f.f.Name() }
func (f *File) Fd() uintptr  { return f.f.Fd() }

func (f *File) Stat() (os.FileInfo, error) { return f.f.Stat() }

func (f *File) Write(p []byte) (int, error) {
	y("file.write")
	latency()
	if fault.Fire("disk-write-err") {
		return 0, &fs.PathError{Op: "write", Path: f.path, Err: syscall.EIO}
	}
	if len(p) > 0 && fault.Fire("disk-short-write") {
		k := fault.Intn(len(p))
		n, _ := f.f.Write(p[:k])
		return n, &fs.PathError{Op: "write", Path: f.path, Err: syscall.ENOSPC}
	}
	return f.f.Write(p)
}

func (f *File) WriteString(s string) (int, error) { return f.Write([]byte(s)) }

func (f *File) WriteAt(p []byte, off int64) (int, error) {
	y("file.writeat")
	latency()
	if fault.Fire("disk-write-err") {
		return 0, &fs.PathError{Op: "write", Path: f.path, Err: syscall.EIO}
	}
	if len(p) > 0 && fault.Fire("disk-short-write") {
		k := fault.Intn(len(p))
		n, _ := f.f.WriteAt(p[:k], off)
		return n, &fs.PathError{Op: "write", Path: f.path, Err: syscall.ENOSPC}
	}
	return f.f.WriteAt(p, off)
}

func (f *File) Read(p []byte) (int, error) {
	y("file.read")
	latency()
	if fault.Fire("disk-read-err") {
		return 0, &fs.PathError{Op: "read", Path: f.path, Err: syscall.EIO}
	}
	if len(p) > 1 && fault.Fire("disk-short-read") {
		p = p[:1+fault.Intn(len(p)-1)]
	}
	return f.f.Read(p)
}

func (f *File) ReadAt(p []byte, off int64) (int, error) {
	y("file.readat")
	latency()
	if fault.Fire("disk-read-err") {
		k := 0
		if len(p) > 0 {
			k = fault.Intn(len(p))
		}
		n, _ := f.f.ReadAt(p[:k], off)
		return n, &fs.PathError{Op: "read", Path: f.path, Err: syscall.EIO}
	}
	n, err := f.f.ReadAt(p, off)
	y("file.readat.done") // descheduled between the kernel's copy and the return
	if err == nil && n == len(p) && fault.Fire("disk-eof-variant") {
		if st, e := f.f.Stat(); e == nil && off+int64(n) == st.Size() {
			return n, io.EOF // legal: "may return either err == EOF or err == nil"
		}
	}
	return n, err
}

func (f *File) Seek(offset int64, whence int) (int64, error) {
	y("file.seek")
	if fault.Fire("disk-seek-err") {
		return 0, &fs.PathError{Op: "seek", Path: f.path, Err: syscall.EIO}
	}
	return f.f.Seek(offset, whence)
}

func (f *File) Sync() error {
	y("file.sync")
	latency()
	if fault.Fire("disk-sync-err") {
		return &fs.PathError{Op: "sync", Path: f.path, Err: syscall.EIO}
	}
	return f.f.Sync()
}

func (f *File) Truncate(size int64) error {
	y("file.truncate")
	if fault.Fire("disk-write-err") {
		return &fs.PathError{Op: "truncate", Path: f.path, Err: syscall.EIO}
	}
	return f.f.Truncate(size)
}

func (f *File) Close() error {
	y("file.close")
	if fault.Fire("disk-close-err") {
		f.f.Close()
		return &fs.PathError{Op: "close", Path: f.path, Err: syscall.EIO}
	}
	return f.f.Close()
}

func (f *File) ReadFrom(r io.Reader) (int64, error) {
	// route through Write so that faults apply
	buf := make([]byte, 32*1024)
	var total int64
	for {
		n, err := r.Read(buf)
		if n > 0 {
			w, werr := f.Write(buf[:n])
			total += int64(w)
			if werr != nil {
				return total, werr
			}
		}
		if err != nil {
			if errors.Is(err, io.EOF) {
				return total, nil
			}
			return total, err
		}
	}
}

func (f *File) Readdir(n int) ([]os.FileInfo, error) { return f.f.Readdir(n) }
func (f *File) Readdirnames(n int) ([]string, error) { return f.f.Readdirnames(n) }
func (f *File) ReadDir(n int) ([]os.DirEntry, error) { return f.f.ReadDir(n) }
func (f *File) Chmod(mode os.FileMode) error         { return f.f.Chmod(mode) }
func (f *File) SetDeadline(t time.Time) error        { return f.f.SetDeadline(t) }
