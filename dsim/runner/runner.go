// Package runner is the per-process driver of simulated runs: it turns run indices into seeds,
// runs a registered scenario once per seed under a fresh choice tape, aggregates what the runs
// covered, shrinks failing tapes and writes replay files. It is linked into the test binary
// that `check` builds from /repo's working tree.
package runner

import (
	"encoding/json"
	"fmt"
	"os"
	"path/filepath"
	"runtime/debug"
	"sort"
	"strconv"
	"strings"
	"sync/atomic"
	"time"

	"dsim"
)

// Scenario is one simulated run: it draws its parameters from x.Tape, runs real code under
// x.Sim and evaluates its oracle, reporting through x.Failf.
type Scenario func(x *X)

var scenarios = map[string]Scenario{}

var tmpCounter int

func Register(name string, s Scenario) { scenarios[name] = s }

// X is the per-run context handed to a scenario.
type X struct {
	Tape     *dsim.Tape
	Tier     string
	Replay   bool
	RealOnly bool // force every knob to its real value (real-constants rule)
	Known    map[string]bool

	viol         *dsim.Violation
	knownHits    map[string]int
	inconclusive string
	notes        map[string]any
	digest       uint64
	probes       map[string]int
	faults       map[string]int
	steps        int
	switches     int
	simTime      time.Duration
	schedSig     uint64
	traceHash    uint64
	strategy     string
	trace        []string
	nontrivial   int // -1 no, 0 default rule, 1 yes
	tmp          string
	harnessErr   string
}

func (x *X) Failed() bool { return x.viol != nil }

// Failf records a violation. The first one of a run wins. If the signature is a listed known
// finding it is only counted and the scenario may continue (returns false); otherwise returns true.
func (x *X) Failf(class, sig, format string, args ...any) bool {
	if x.Known[sig] {
		x.knownHits[sig]++
		return false
	}
	if x.viol == nil {
		x.viol = &dsim.Violation{Class: class, Signature: sig, Detail: fmt.Sprintf(format, args...)}
	}
	return true
}

func (x *X) Inconclusive(reason string) {
	if x.inconclusive == "" {
		x.inconclusive = reason
	}
}
func (x *X) Note(k string, v any) { x.notes[k] = v }
func (x *X) Probe(name string)    { x.probes[name]++ }
func (x *X) Fault(kind string)    { x.faults[kind]++ }
func (x *X) SetNontrivial(b bool) {
	if b {
		x.nontrivial = 1
	} else {
		x.nontrivial = -1
	}
}

// Digest folds scenario-defining values into the run's scenario digest.
func (x *X) Digest(parts ...any) {
	for _, p := range parts {
		x.digest = (x.digest ^ dsim.HashBytes([]byte(fmt.Sprint(p)))) * 1099511628211
	}
}

// TempDir returns a per-run scratch directory (removed after the run).
func (x *X) TempDir() string {
	if x.tmp == "" {
		base := os.Getenv("VERIF_SCRATCH")
		if base == "" {
			base = os.TempDir()
		}
		os.MkdirAll(base, 0o755)
		// fixed-width names: path lengths end up in generated config files, and a path that is one
		// byte longer can cost a reader one more Read call, i.e. one more scheduling step
		tmpCounter++
		d := filepath.Join(base, fmt.Sprintf("run-%08d-%07d", os.Getpid()%100000000, tmpCounter))
		if err := os.MkdirAll(d, 0o755); err != nil {
			panic(err)
		}
		x.tmp = d
	}
	return x.tmp
}

// SimOpts says how the outcome of a simulated phase is to be judged.
type SimOpts struct {
	Cfg dsim.Config
	// FaultsFlowing: a step/time cap is inconclusive rather than a liveness violation.
	FaultsFlowing bool
	// Name of the phase, used in signatures.
	Phase string
	// PanicOK: a panic is expected behaviour in this phase (returned to the caller as info).
	PanicOK bool
}

// Sim runs main under the simulator and folds outcome and statistics into the run.
// Deadlocks, panics, and caps (when no faults are flowing) are recorded as violations.
func (x *X) Sim(o SimOpts, main func()) *dsim.Info {
	info := dsim.Run(x.Tape, o.Cfg, main)
	x.steps += info.Steps
	x.switches += info.Switches
	x.simTime += info.SimTime
	x.schedSig = (x.schedSig ^ info.SchedSig) * 1099511628211
	x.traceHash = (x.traceHash ^ info.TraceHash) * 1099511628211
	if x.strategy == "" {
		x.strategy = info.Strategy
	}
	for k, v := range info.Probes {
		x.probes[k] += v
	}
	for k, v := range info.Faults {
		x.faults[k] += v
	}
	if os.Getenv("DSIM_TRACE_ALL") == "1" {
		for _, l := range info.Trace {
			fmt.Println("TRACE", l)
		}
	}
	if info.Leaked > 0 {
		x.harnessErr = fmt.Sprintf("phase %s: %d goroutines did not leave at tear-down", o.Phase, info.Leaked)
	}
	ph := o.Phase
	if ph != "" {
		ph += ": "
	}
	switch info.Outcome {
	case "ok":
	case "violation":
		if info.Violation != nil {
			if x.Failf(info.Violation.Class, info.Violation.Signature, "%s", info.Violation.Detail) {
				x.trace = info.Trace
			}
		}
	case "panic":
		if strings.Contains(info.Detail, "dsim: tape runaway") {
			// a limit of the machinery, not a property of the code under test
			x.Failf("harness", ph+"tape runaway", "%s", info.Detail)
		} else if !o.PanicOK {
			if x.Failf("panic", ph+"panic in "+info.PanicTop, "%s", info.Detail) {
				x.trace = info.Trace
			}
		}
	case "deadlock":
		if x.Failf("deadlock", ph+"deadlock: "+waitSig(info.Blocked), "%s\n%s", info.Detail, strings.Join(info.Blocked, "\n")) {
			x.trace = info.Trace
		}
	case "step-cap", "time-cap":
		if o.FaultsFlowing {
			x.Inconclusive(info.Outcome + " while faults flow")
		} else if x.Failf("liveness", ph+"no completion within "+info.Outcome+": "+waitSig(info.Blocked), "%s\n%s", info.Detail, strings.Join(info.Blocked, "\n")) {
			x.trace = info.Trace
		}
	}
	return info
}

// waitSig: stable description of what the blocked goroutines wait for (the set of wait kinds;
// who and how many varies from schedule to schedule and is in the detail, not in the signature).
func waitSig(blocked []string) string {
	seen := map[string]bool{}
	var out []string
	for _, b := range blocked {
		i := strings.Index(b, " waits on ")
		if i < 0 {
			continue
		}
		k := b[i+len(" waits on "):]
		if !seen[k] {
			seen[k] = true
			out = append(out, k)
		}
	}
	sort.Strings(out)
	return "blocked on {" + strings.Join(out, ", ") + "}"
}

// ---------------------------------------------------------------------------------------

type RunResult struct {
	Run          int             `json:"run"`
	Seed         uint64          `json:"seed"`
	Violation    *dsim.Violation `json:"violation,omitempty"`
	Inconclusive string          `json:"inconclusive,omitempty"`
	HarnessErr   string          `json:"harness_error,omitempty"`
	Steps        int             `json:"steps"`
	Switches     int             `json:"switches"`
	SimTimeNs    int64           `json:"sim_time_ns"`
	SchedSig     uint64          `json:"sched_sig"`
	TraceHash    uint64          `json:"trace_hash"`
	Digest       uint64          `json:"digest"`
	Strategy     string          `json:"strategy"`
	Notes        map[string]any  `json:"notes,omitempty"`
	Faults       map[string]int  `json:"faults,omitempty"`
	Probes       map[string]int  `json:"probes,omitempty"`
	KnownHits    map[string]int  `json:"known_hits,omitempty"`
	Nontrivial   bool            `json:"nontrivial"`
	TapeLen      int             `json:"tape_len"`
	Trace        []string        `json:"trace_tail,omitempty"`
	tape         []uint32
}

type Opts struct {
	Tier     string
	RealOnly bool
	Known    map[string]bool
}

// RunOnce executes the scenario once on the given tape.
func RunOnce(sc Scenario, t *dsim.Tape, o Opts) (res RunResult) {
	atomic.AddInt64(&watchdogBeat, 1)
	atomic.StoreInt64(&watchdogActive, 1)
	defer atomic.StoreInt64(&watchdogActive, 0)
	x := &X{Tape: t, Tier: o.Tier, Replay: t.Replay, RealOnly: o.RealOnly, Known: o.Known, knownHits: map[string]int{},
		notes: map[string]any{}, probes: map[string]int{}, faults: map[string]int{}, digest: 1469598103934665603}
	func() {
		defer func() {
			if r := recover(); r != nil {
				st := string(debug.Stack())
				if top := panicOrigin(st); top != "" {
					// sequential checks call the code under test directly: a panic that originates in
					// the repository's own code is a finding about that code, not a harness failure
					x.Failf("panic", "panic in "+top, "%v\n%s", r, clipStack(st, 2400))
				} else {
					x.harnessErr = fmt.Sprintf("panic outside the simulation: %v\n%s", r, st)
				}
			}
		}()
		dsim.NewGeneration() // simulated process-level state (pools) starts empty, as in the replay process
		sc(x)
	}()
	if x.tmp != "" {
		os.RemoveAll(x.tmp)
	}
	dsim.SetKnobs(nil)
	if x.viol != nil && x.viol.Class == "harness" {
		x.harnessErr = x.viol.Signature + ": " + x.viol.Detail
		x.viol = nil
	}
	res = RunResult{Seed: t.Seed, Violation: x.viol, Inconclusive: x.inconclusive, HarnessErr: x.harnessErr, Steps: x.steps,
		Switches: x.switches, SimTimeNs: int64(x.simTime), SchedSig: x.schedSig, TraceHash: x.traceHash, Digest: x.digest,
		Strategy: x.strategy, Notes: x.notes, Faults: x.faults, Probes: x.probes, KnownHits: x.knownHits, TapeLen: len(t.Rec),
		Trace: x.trace, tape: t.Rec}
	nf := 0
	for _, v := range x.faults {
		nf += v
	}
	switch x.nontrivial {
	case 1:
		res.Nontrivial = true
	case -1:
		res.Nontrivial = false
	default:
		res.Nontrivial = x.switches > 0 || nf > 0
	}
	return res
}

// ReplayFile is the on-disk form of a failing (minimised) run.
type ReplayFile struct {
	Property  string         `json:"property"`
	Scenario  string         `json:"scenario"`
	Tier      string         `json:"tier"`
	Seed      uint64         `json:"seed"`
	RealOnly  bool           `json:"real_constants"`
	Tape      []uint32       `json:"tape"`
	Expect    dsim.Violation `json:"expect"`
	Notes     map[string]any `json:"notes,omitempty"`
	Strategy  string         `json:"strategy,omitempty"`
	Faults    map[string]int `json:"faults,omitempty"`
	TraceHash uint64         `json:"trace_hash"`
	Trace     []string       `json:"trace_tail,omitempty"`
	OrigLen   int            `json:"original_tape_len"`
	ShrinkRun int            `json:"shrink_runs"`
	// FromSeed: the run is reproduced by searching from Seed again (used for runs that kill the
	// process, whose tape could not be recorded).
	FromSeed bool `json:"from_seed,omitempty"`
}

type Summary struct {
	Scenario     string           `json:"scenario"`
	From, To     int              `json:"-"`
	Runs         int              `json:"runs"`
	Nontrivial   int              `json:"nontrivial"`
	Inconclusive map[string]int   `json:"inconclusive"`
	Steps        int64            `json:"steps"`
	Switches     int64            `json:"switches"`
	SimTimeNs    int64            `json:"sim_time_ns"`
	Faults       map[string]int   `json:"faults"`
	Probes       map[string]int   `json:"probes"`
	Strategies   map[string]int   `json:"strategies"`
	KnownHits    map[string]int   `json:"known_hits"`
	KnobOnly     map[string]int   `json:"knob_only"`
	Distinct     []uint64         `json:"distinct"`   // hashes of (digest, schedule signature, fault multiset) of non-trivial runs
	SchedSigs    []uint64         `json:"sched_sigs"` // distinct schedule signatures
	Samples      []RunResult      `json:"samples"`
	Violations   []ViolationEntry `json:"violations"`
	HarnessErrs  []string         `json:"harness_errors"`
	WallS        float64          `json:"wall_s"`
	DetHash      uint64           `json:"det_hash"` // fold of all trace hashes: same seeds => same value
	Next         int              `json:"next"`     // first run index not covered by this summary
	Complete     bool             `json:"complete"`
}

type ViolationEntry struct {
	Run       int            `json:"run"`
	Seed      uint64         `json:"seed"`
	Violation dsim.Violation `json:"violation"`
	Replay    string         `json:"replay"`
	TapeLen   int            `json:"tape_len"`
}

func envInt(k string, def int) int {
	if v := os.Getenv(k); v != "" {
		n, err := strconv.Atoi(v)
		if err == nil {
			return n
		}
	}
	return def
}

// Main is called from the overlaid test function. Modes (VERIF_MODE): search, replay.
func Main() {
	mode := os.Getenv("VERIF_MODE")
	if mode == "" {
		return
	}
	name := os.Getenv("VERIF_SCENARIO")
	sc := scenarios[name]
	if sc == nil {
		fmt.Printf("HARNESS-ERROR unknown scenario %q\n", name)
		os.Exit(2)
	}
	known := map[string]bool{}
	if p := os.Getenv("VERIF_KNOWN"); p != "" {
		var l []string
		if b, err := os.ReadFile(p); err == nil {
			json.Unmarshal(b, &l)
		}
		for _, s := range l {
			known[s] = true
		}
	}
	opts := Opts{Tier: os.Getenv("VERIF_TIER"), Known: known, RealOnly: os.Getenv("VERIF_REAL_ONLY") == "1"}
	if opts.Tier == "" {
		opts.Tier = "quick"
	}
	switch mode {
	case "replay":
		replayMain(sc, opts)
	case "search":
		searchMain(name, sc, opts)
	default:
		fmt.Printf("HARNESS-ERROR unknown mode %q\n", mode)
		os.Exit(2)
	}
}

func replayMain(sc Scenario, opts Opts) {
	p := os.Getenv("VERIF_REPLAY")
	b, err := os.ReadFile(p)
	if err != nil {
		fmt.Printf("HARNESS-ERROR %v\n", err)
		os.Exit(2)
	}
	var rf ReplayFile
	if err := json.Unmarshal(b, &rf); err != nil {
		fmt.Printf("HARNESS-ERROR %v\n", err)
		os.Exit(2)
	}
	opts.Tier = rf.Tier
	opts.RealOnly = rf.RealOnly
	// the replayed violation must not be masked by the known list
	opts.Known = map[string]bool{}
	startWatchdog(envInt("VERIF_WATCHDOG_S", 300))
	fmt.Printf("BEGIN 0\n")
	tape := dsim.ReplayTape(rf.Seed, rf.Tape)
	if rf.FromSeed {
		tape = dsim.NewTape(rf.Seed)
	}
	res := RunOnce(sc, tape, opts)
	out, _ := json.Marshal(res)
	fmt.Printf("REPLAY-RESULT %s\n", out)
	if res.HarnessErr != "" {
		fmt.Printf("HARNESS-ERROR %s\n", res.HarnessErr)
		os.Exit(2)
	}
	if res.Violation != nil && res.Violation.Class == rf.Expect.Class && res.Violation.Signature == rf.Expect.Signature {
		fmt.Printf("REPRODUCED class=%s signature=%q trace_hash=%d\n", res.Violation.Class, res.Violation.Signature, res.TraceHash)
		fmt.Printf("%s\n", res.Violation.Detail)
		os.Exit(1)
	}
	if res.Violation != nil {
		fmt.Printf("DIFFERENT class=%s signature=%q\n%s\n", res.Violation.Class, res.Violation.Signature, res.Violation.Detail)
		os.Exit(3)
	}
	fmt.Printf("NOT-REPRODUCED\n")
	os.Exit(0)
}

var watchdogRun = -1
var watchdogBeat int64

// startWatchdog ends the process when a single scenario execution (search run, shrink candidate or
// replay) makes no progress for sec seconds of wall-clock time: un-instrumented loops cannot be
// interrupted any other way. The driver attributes the death to the last BEGIN line.
func startWatchdog(sec int) {
	go func() {
		last := int64(-1)
		since := time.Now()
		for {
			time.Sleep(500 * time.Millisecond)
			b := atomic.LoadInt64(&watchdogBeat)
			if b != last {
				last = b
				since = time.Now()
				continue
			}
			if atomic.LoadInt64(&watchdogActive) == 1 && time.Since(since) > time.Duration(sec)*time.Second {
				fmt.Printf("WATCHDOG run=%d exceeded %ds wall\n", watchdogRun, sec)
				os.Exit(4)
			}
		}
	}()
}

var watchdogActive int64

func searchMain(name string, sc Scenario, opts Opts) {
	base := uint64(envInt("VERIF_SEED", 1))
	from, to := envInt("VERIF_FROM", 0), envInt("VERIF_TO", 1)
	wall := time.Duration(envInt("VERIF_WALL_S", 3600)) * time.Second
	shrinkS := time.Duration(envInt("VERIF_SHRINK_S", 30)) * time.Second
	outPath := os.Getenv("VERIF_OUT")
	replayDir := os.Getenv("VERIF_REPLAY_DIR")
	prop := os.Getenv("VERIF_PROPERTY")
	maxViol := envInt("VERIF_MAX_VIOL", 3)
	startWatchdog(envInt("VERIF_WATCHDOG_S", 120))
	t0 := time.Now()
	sum := Summary{Scenario: name, Inconclusive: map[string]int{}, Faults: map[string]int{}, Probes: map[string]int{},
		Strategies: map[string]int{}, KnownHits: map[string]int{}}
	distinct := map[uint64]bool{}
	sigs := map[uint64]bool{}
	seenViol := map[string]bool{}
	knobOnlySeen := map[string]int{}
	realRule := os.Getenv("VERIF_REAL_RULE") == "1"
	realSearch := envInt("VERIF_REAL_SEARCH", 60)
	ckEvery := envInt("VERIF_CHECKPOINT_EVERY", 50)
	verbose := os.Getenv("VERIF_VERBOSE") == "1"
	sum.KnobOnly = map[string]int{}
	for i := from; i < to; i++ {
		if time.Since(t0) > wall {
			break
		}
		if ckEvery > 0 && i > from && (i-from)%ckEvery == 0 {
			sum.Next = i
			writeSummary(&sum, distinct, sigs, t0, outPath)
		}
		seed := dsim.Mix(base, uint64(i))
		watchdogRun = i
		fmt.Printf("BEGIN %d\n", i)
		res := RunOnce(sc, dsim.NewTape(seed), opts)
		res.Run = i
		if verbose {
			fmt.Printf("END %d trace=%d digest=%d steps=%d switches=%d tape=%d\n", i, res.TraceHash, res.Digest, res.Steps, res.Switches, res.TapeLen)
		}
		sum.Runs++
		sum.Steps += int64(res.Steps)
		sum.Switches += int64(res.Switches)
		sum.SimTimeNs += res.SimTimeNs
		sum.DetHash = (sum.DetHash ^ res.TraceHash ^ res.Digest) * 1099511628211
		for k, v := range res.Faults {
			sum.Faults[k] += v
		}
		for k, v := range res.Probes {
			sum.Probes[k] += v
		}
		for k, v := range res.KnownHits {
			sum.KnownHits[k] += v
		}
		if res.Strategy != "" {
			sum.Strategies[stratFamily(res.Strategy)]++
		}
		if res.HarnessErr != "" {
			sum.HarnessErrs = append(sum.HarnessErrs, fmt.Sprintf("run %d seed %d: %s", i, seed, res.HarnessErr))
			if len(sum.HarnessErrs) > 5 {
				break
			}
			continue
		}
		if res.Inconclusive != "" {
			sum.Inconclusive[res.Inconclusive]++
		}
		if res.Nontrivial {
			h := res.Digest
			h = (h ^ res.SchedSig) * 1099511628211
			h = (h ^ faultHash(res.Faults)) * 1099511628211
			if !distinct[h] {
				distinct[h] = true
				sum.Nontrivial++
			}
		}
		if res.Switches > 0 {
			sigs[res.SchedSig] = true
		}
		if len(sum.Samples) < 3 && res.Nontrivial && res.Violation == nil {
			s := res
			s.Trace = nil
			sum.Samples = append(sum.Samples, s)
		}
		if res.Violation != nil {
			key := res.Violation.Class + "|" + res.Violation.Signature
			if seenViol[key] {
				continue
			}
			seenViol[key] = true
			watchdogRun = -1 - i // shrinking: many runs, own budget
			rf := Shrink(sc, name, prop, res, opts, shrinkS)
			if realRule && !opts.RealOnly {
				// real-constants rule: only a violation that reproduces with every knob at its real value counts
				ro := opts
				ro.RealOnly = true
				ro.Known = map[string]bool{}
				same := func(r RunResult) bool {
					return r.HarnessErr == "" && r.Violation != nil && r.Violation.Class == res.Violation.Class && r.Violation.Signature == res.Violation.Signature
				}
				r := RunOnce(sc, dsim.ReplayTape(seed, rf.Tape), ro)
				found := same(r)
				if !found {
					r = RunOnce(sc, dsim.ReplayTape(seed, res.tape), ro)
					found = same(r)
				}
				for j := 0; !found && j < realSearch; j++ {
					r = RunOnce(sc, dsim.NewTape(dsim.Mix(seed, uint64(1000+j))), ro)
					found = same(r)
				}
				if !found {
					sum.KnobOnly[res.Violation.Signature]++
					delete(seenViol, key)
					knobOnlySeen[key]++
					if knobOnlySeen[key] >= 3 {
						seenViol[key] = true // stop spending time on it in this worker
					}
					continue
				}
				r.Run = i
				rf = Shrink(sc, name, prop, r, ro, shrinkS)
			}
			path := ""
			if replayDir != "" {
				os.MkdirAll(replayDir, 0o755)
				path = filepath.Join(replayDir, fmt.Sprintf("%s-%s-seed%d.json", prop, sanitize(res.Violation.Signature), rf.Seed))
				b, _ := json.MarshalIndent(rf, "", " ")
				os.WriteFile(path, b, 0o644)
			}
			sum.Violations = append(sum.Violations, ViolationEntry{Run: i, Seed: rf.Seed, Violation: rf.Expect, Replay: path, TapeLen: len(rf.Tape)})
			if len(sum.Violations) >= maxViol {
				break
			}
		}
	}
	watchdogRun = -1
	sum.Complete = true
	sum.Next = to
	writeSummary(&sum, distinct, sigs, t0, outPath)
	fmt.Printf("DONE runs=%d violations=%d harness_errors=%d det_hash=%d\n", sum.Runs, len(sum.Violations), len(sum.HarnessErrs), sum.DetHash)
}

func writeSummary(sum *Summary, distinct, sigs map[uint64]bool, t0 time.Time, outPath string) {
	sum.Distinct = sum.Distinct[:0]
	sum.SchedSigs = sum.SchedSigs[:0]
	for h := range distinct {
		sum.Distinct = append(sum.Distinct, h)
	}
	for h := range sigs {
		sum.SchedSigs = append(sum.SchedSigs, h)
	}
	sort.Slice(sum.Distinct, func(i, j int) bool { return sum.Distinct[i] < sum.Distinct[j] })
	sort.Slice(sum.SchedSigs, func(i, j int) bool { return sum.SchedSigs[i] < sum.SchedSigs[j] })
	sum.WallS = time.Since(t0).Seconds()
	b, _ := json.Marshal(sum)
	if outPath != "" {
		tmp := outPath + ".tmp"
		if err := os.WriteFile(tmp, b, 0o644); err != nil {
			fmt.Printf("HARNESS-ERROR %v\n", err)
			os.Exit(2)
		}
		os.Rename(tmp, outPath)
	}
}

func stratFamily(s string) string {
	if i := strings.Index(s, "("); i > 0 {
		return s[:i]
	}
	return s
}

func faultHash(m map[string]int) uint64 {
	keys := make([]string, 0, len(m))
	for k := range m {
		keys = append(keys, k)
	}
	sort.Strings(keys)
	var h uint64 = 1469598103934665603
	for _, k := range keys {
		h = (h ^ dsim.HashBytes([]byte(k))) * 1099511628211
		h = (h ^ uint64(m[k])) * 1099511628211
	}
	return h
}

func sanitize(s string) string {
	var b strings.Builder
	for _, r := range s {
		switch {
		case r >= 'a' && r <= 'z', r >= 'A' && r <= 'Z', r >= '0' && r <= '9':
			b.WriteRune(r)
		default:
			b.WriteByte('_')
		}
		if b.Len() >= 60 {
			break
		}
	}
	return b.String()
}

// ---------------------------------------------------------------------------------------
// Shrinking: tape-level, keeps a candidate iff the same violation class and signature recur.

func Shrink(sc Scenario, name, prop string, orig RunResult, opts Opts, budget time.Duration) ReplayFile {
	want := *orig.Violation
	best := append([]uint32(nil), orig.tape...)
	bestRes := orig
	runs := 0
	deadline := time.Now().Add(budget)
	o2 := opts
	o2.Known = map[string]bool{}
	try := func(cand []uint32) bool {
		if time.Now().After(deadline) {
			return false
		}
		runs++
		r := RunOnce(sc, dsim.ReplayTape(orig.Seed, cand), o2)
		if r.HarnessErr == "" && r.Violation != nil && r.Violation.Class == want.Class && r.Violation.Signature == want.Signature {
			// canonical form: what the run actually consumed
			if len(r.tape) <= len(cand) {
				best = append([]uint32(nil), r.tape...)
			} else {
				best = append([]uint32(nil), cand...)
			}
			bestRes = r
			return true
		}
		return false
	}
	// the recorded tape must reproduce in-process to begin with
	if !try(best) {
		return mkReplay(name, prop, opts, orig, orig.tape, want, len(orig.tape), runs)
	}
	improved := true
	for improved && time.Now().Before(deadline) {
		improved = false
		// 1. cut the tail
		for n := len(best) / 2; n >= 1; n /= 2 {
			for len(best) > n && try(best[:len(best)-n]) {
				improved = true
			}
		}
		// 2. delete chunks
		for size := 16; size >= 1; size /= 2 {
			for i := len(best) - size; i >= 0; i -= size {
				if i+size > len(best) {
					continue
				}
				cand := append(append([]uint32(nil), best[:i]...), best[i+size:]...)
				if try(cand) {
					improved = true
				}
			}
		}
		// 3. zero chunks
		for size := 16; size >= 1; size /= 2 {
			for i := 0; i+size <= len(best); i += size {
				allZero := true
				for _, v := range best[i : i+size] {
					if v != 0 {
						allZero = false
					}
				}
				if allZero {
					continue
				}
				cand := append([]uint32(nil), best...)
				for j := i; j < i+size; j++ {
					cand[j] = 0
				}
				if try(cand) {
					improved = true
				}
			}
		}
		// 4. lower single values
		for i := 0; i < len(best); i++ {
			if best[i] == 0 {
				continue
			}
			c := append([]uint32(nil), best...)
			c[i] = 0
			if try(c) {
				improved = true
				continue
			}
			for i < len(best) && best[i] > 1 {
				c := append([]uint32(nil), best...)
				c[i] = best[i] / 2
				if !try(c) {
					break
				}
				improved = true
			}
			if i < len(best) && best[i] > 0 {
				c := append([]uint32(nil), best...)
				c[i]--
				if try(c) {
					improved = true
				}
			}
		}
	}
	return mkReplay(name, prop, opts, bestRes, best, want, len(orig.tape), runs)
}

func mkReplay(name, prop string, opts Opts, r RunResult, tape []uint32, want dsim.Violation, origLen, runs int) ReplayFile {
	if r.Violation != nil {
		want.Detail = r.Violation.Detail
	}
	return ReplayFile{Property: prop, Scenario: name, Tier: opts.Tier, Seed: r.Seed, RealOnly: opts.RealOnly, Tape: tape, Expect: want,
		Notes: r.Notes, Strategy: r.Strategy, Faults: r.Faults, TraceHash: r.TraceHash, Trace: r.Trace, OrigLen: origLen, ShrinkRun: runs}
}

// panicOrigin returns the function in which a recovered panic originated if that function
// belongs to the code under test (a non-test file under /repo), "" otherwise (harness, simulator
// or library code panicked: a harness error).
func panicOrigin(stack string) string {
	lines := strings.Split(stack, "\n")
	// a deferred function may have recovered and re-raised the panic: the original one is the
	// last panic( frame of the listing (frames are listed innermost first)
	start := -1
	for i, l := range lines {
		if strings.HasPrefix(strings.TrimSpace(l), "panic(") {
			start = i
		}
	}
	if start < 0 {
		return ""
	}
	for i := start + 2; i+1 < len(lines); i++ {
		fn := strings.TrimSpace(lines[i])
		if fn == "" || strings.HasPrefix(fn, "/") {
			continue
		}
		file := strings.TrimSpace(lines[i+1])
		if strings.HasPrefix(fn, "runtime.") || strings.HasPrefix(file, "/usr/") || strings.Contains(file, "/go/pkg/mod/") && !strings.Contains(file, "/repo/") {
			i++
			continue
		}
		// the first frame that is neither the runtime nor a library: where the panic was raised
		if strings.HasPrefix(file, "/repo/") && !strings.Contains(file, "_test.go") && !strings.Contains(file, "zz_verif") {
			if k := strings.LastIndex(fn, "("); k > 0 {
				fn = fn[:k]
			}
			return fn
		}
		return ""
	}
	return ""
}

func clipStack(s string, n int) string {
	if len(s) > n {
		return s[:n] + "..."
	}
	return s
}
