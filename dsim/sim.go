package dsim

import (
	"bytes"
	"container/heap"
	"fmt"
	"os"
	"runtime"
	"runtime/debug"
	"sort"
	"strconv"
	"strings"
	"sync/atomic"
	"time"
)

// ---------------------------------------------------------------------------------------
// Public types

type StrategyKind int

const (
	StratRandomWalk StrategyKind = iota
	StratPCT
	StratStarve
	StratRunToBlock
)

func (k StrategyKind) String() string {
	return [...]string{"random-walk", "pct", "starve", "run-to-block"}[k]
}

type Config struct {
	MaxSteps   int           // yields before the run is cut ("step-cap"); default 200000
	MaxSimTime time.Duration // simulated time cap; default 1h
	// Strategy selection. If ForceStrategy is false the strategy is derived from the seed (swarm).
	ForceStrategy bool
	Strategy      StrategyKind
	SwitchP       float64 // random-walk switch probability
	PCTDepth      int
	StarveName    string  // substring of the goroutine name to starve (StratStarve); "" = seed picks an ordinal
	TimerRaceP    float64 // probability that a pending timer fires although goroutines are runnable (<0: seed picks)
	FairnessBound int     // a runnable goroutine not chosen for this many decisions is chosen (default 20000)
	NoTimerRace   bool    // timers fire only when nothing is runnable (for code whose deadlines must not be hit by scheduling alone)
	Paranoid      bool    // check goroutine identity at every primitive (slow)
	TickPerStep   time.Duration
	StmtYields    bool // statement-boundary yields (dsim.Y) are live
}

type Violation struct {
	Class     string `json:"class"`
	Signature string `json:"signature"`
	Detail    string `json:"detail"`
}

// Info is what a simulated run reports.
type Info struct {
	Outcome   string         `json:"outcome"` // ok | deadlock | step-cap | time-cap | panic | violation
	Detail    string         `json:"detail,omitempty"`
	Violation *Violation     `json:"violation,omitempty"`
	Steps     int            `json:"steps"`
	Switches  int            `json:"switches"`
	SimTime   time.Duration  `json:"sim_time_ns"`
	TraceHash uint64         `json:"trace_hash"`
	SchedSig  uint64         `json:"sched_sig"`
	Strategy  string         `json:"strategy"`
	Gs        int            `json:"goroutines"`
	Leaked    int            `json:"leaked"`
	Blocked   []string       `json:"blocked,omitempty"` // who waits for what at the end (deadlock / caps)
	MainDone  bool           `json:"main_done"`
	Trace     []string       `json:"trace_tail,omitempty"`
	Probes    map[string]int `json:"-"`
	Faults    map[string]int `json:"-"`
	PanicTop  string         `json:"panic_top,omitempty"`
}

type gstate int

const (
	gRunnable gstate = iota
	gBlocked
	gSleeping
	gQuiesce
	gDone
)

type G struct {
	id        int
	name      string
	wake      chan struct{}
	exited    chan struct{}
	state     gstate
	blockedAt uint64
	sweepGen  uint64
	waitOn    string
	prio      int
	goid      int64
	steps     int

	quiesceTimers bool
	tag           any
	lastRun       int // scheduling decision at which it last ran (fairness bound)
}

// Tag is a goroutine-local value (inherited by goroutines it starts); harnesses use it to
// attribute injected faults to the operation in whose context they fired.
func (g *G) Tag() any     { return g.tag }
func (g *G) SetTag(v any) { g.tag = v }

func (g *G) ID() int      { return g.id }
func (g *G) Name() string { return g.name }

type timer struct {
	at   time.Duration
	seq  uint64
	fn   func()
	dead bool
	idx  int
}

type timerHeap []*timer

func (h timerHeap) Len() int { return len(h) }
func (h timerHeap) Less(i, j int) bool {
	if h[i].at != h[j].at {
		return h[i].at < h[j].at
	}
	return h[i].seq < h[j].seq
}
func (h timerHeap) Swap(i, j int) { h[i], h[j] = h[j], h[i]; h[i].idx = i; h[j].idx = j }
func (h *timerHeap) Push(x any)   { t := x.(*timer); t.idx = len(*h); *h = append(*h, t) }
func (h *timerHeap) Pop() any     { o := *h; n := len(o); t := o[n-1]; *h = o[:n-1]; return t }
func (h timerHeap) peek() *timer  { return h[0] }

type event struct {
	step int
	gid  int
	op   string
	arg  uint64
}

type Sim struct {
	tape *Tape
	cfg  Config
	srng *Rand // strategy randomness (search mode only; never consulted in replay)

	gs       []*G
	cur      *G
	progress uint64
	sweeping bool
	sweepAt  uint64
	sweepGen uint64

	now      time.Duration
	timers   timerHeap
	tseq     uint64
	earlyBud int

	steps     int
	decisions int
	fairBound int
	switches  int
	thash     uint64
	ssig      uint64
	ring      [256]event
	ringN     int

	strat     StrategyKind
	switchP   float64
	timerP    float64
	pctPoints map[int]bool
	pctLow    int
	starveOrd int

	probes map[string]int
	faults map[string]int

	outcome   string
	detail    string
	violation *Violation
	panicTop  string
	blocked   []string
	mainDone  bool

	stmtYields bool
	chans      map[uintptr]*chanState
	mapWin     map[uintptr][]mapAcc // announced map accesses (mapguard.go)
	stopping   atomic.Bool
	finished   chan struct{}
	finOnce    atomic.Bool

	// Values scenarios can hang on the simulation (e.g. the fault plan).
	Values map[string]any
}

var paranoidEnv = os.Getenv("DSIM_PARANOID") == "1"
var traceAllEnv = os.Getenv("DSIM_TRACE_ALL") == "1"

var active atomic.Pointer[Sim]

// Active returns the running simulation or nil. Primitives fall back to the real
// implementation when it is nil.
func Active() *Sim { return active.Load() }

// Base time of every simulation: a fixed instant so that nothing depends on the wall clock.
var Epoch0 = time.Date(2024, 1, 1, 0, 0, 0, 0, time.UTC)

// ---------------------------------------------------------------------------------------
// Run

var generation atomic.Uint64

// Generation identifies the current scenario run of this process; NewGeneration starts the next
// one. Simulated process-level state (sync.Pool free lists) is reset when it changes.
func Generation() uint64 { return generation.Load() }
func NewGeneration()     { generation.Add(1) }

func Run(t *Tape, cfg Config, main func()) *Info {
	if active.Load() != nil {
		panic("dsim: nested Run")
	}
	if cfg.MaxSteps == 0 {
		cfg.MaxSteps = 200000
	}
	if paranoidEnv {
		cfg.Paranoid = true
	}
	if cfg.MaxSimTime == 0 {
		cfg.MaxSimTime = time.Hour
	}
	s := &Sim{tape: t, cfg: cfg, srng: NewRand(t.Seed ^ 0x5ca1ab1e), finished: make(chan struct{}),
		probes: map[string]int{}, faults: map[string]int{}, thash: 1469598103934665603, ssig: 1469598103934665603,
		Values: map[string]any{}, earlyBud: 64}
	s.stmtYields = cfg.StmtYields
	s.fairBound = cfg.FairnessBound
	if s.fairBound <= 0 {
		s.fairBound = 20000
	}
	s.initStrategy()
	active.Store(s)
	g0 := s.newG("main")
	s.cur = g0
	s.start(g0, main)
	g0.wake <- struct{}{}
	<-s.finished
	// tear down: one goroutine at a time
	s.stopping.Store(true)
	leaked := 0
	for i := 0; i < len(s.gs); i++ {
		g := s.gs[i]
		select {
		case g.wake <- struct{}{}:
		default:
		}
		select {
		case <-g.exited:
		case <-time.After(5 * time.Second):
			leaked++
		}
	}
	active.Store(nil)
	info := &Info{Outcome: s.outcome, Detail: s.detail, Violation: s.violation, Steps: s.steps, Switches: s.switches,
		SimTime: s.now, TraceHash: s.thash, SchedSig: s.ssig, Strategy: s.stratString(), Gs: len(s.gs), Leaked: leaked,
		Blocked: s.blocked, MainDone: s.mainDone, Probes: s.probes, Faults: s.faults, PanicTop: s.panicTop}
	if info.Outcome != "ok" || traceAllEnv {
		info.Trace = s.traceTail()
	}
	return info
}

func (s *Sim) initStrategy() {
	c := s.cfg
	if c.ForceStrategy {
		s.strat = c.Strategy
		s.switchP = c.SwitchP
	} else {
		switch s.srng.Intn(10) {
		case 0, 1, 2, 3:
			s.strat = StratRandomWalk
		case 4, 5, 6:
			s.strat = StratPCT
		case 7, 8:
			s.strat = StratStarve
		default:
			s.strat = StratRunToBlock
		}
		s.switchP = []float64{0.02, 0.1, 0.3, 0.7}[s.srng.Intn(4)]
	}
	if s.switchP == 0 {
		s.switchP = 0.1
	}
	if c.NoTimerRace {
		s.timerP = 0
	} else if c.TimerRaceP < 0 || (!c.ForceStrategy && c.TimerRaceP == 0) {
		s.timerP = []float64{0, 0, 0.005, 0.05}[s.srng.Intn(4)]
	} else {
		s.timerP = c.TimerRaceP
	}
	if s.strat == StratPCT {
		d := c.PCTDepth
		if d == 0 {
			d = 1 + s.srng.Intn(3)
		}
		s.pctPoints = map[int]bool{}
		horizon := []int{50, 300, 2000, 20000}[s.srng.Intn(4)]
		for i := 0; i < d; i++ {
			s.pctPoints[1+s.srng.Intn(horizon)] = true
		}
	}
	s.starveOrd = s.srng.Intn(4)
}

func (s *Sim) stratString() string {
	switch s.strat {
	case StratRandomWalk:
		return fmt.Sprintf("random-walk(p=%g,timer=%g)", s.switchP, s.timerP)
	case StratPCT:
		return fmt.Sprintf("pct(d=%d,timer=%g)", len(s.pctPoints), s.timerP)
	case StratStarve:
		if s.cfg.StarveName != "" {
			return fmt.Sprintf("starve(%s,timer=%g)", s.cfg.StarveName, s.timerP)
		}
		return fmt.Sprintf("starve(#%d,timer=%g)", s.starveOrd, s.timerP)
	}
	return fmt.Sprintf("run-to-block(timer=%g)", s.timerP)
}

func (s *Sim) newG(name string) *G {
	g := &G{id: len(s.gs), name: name, wake: make(chan struct{}, 1), exited: make(chan struct{}), lastRun: s.decisions}
	g.prio = 1 + s.srng.Intn(1<<20)
	if s.cur != nil {
		g.tag = s.cur.tag
	}
	s.gs = append(s.gs, g)
	return g
}

func (s *Sim) start(g *G, fn func()) {
	go func() {
		defer close(g.exited)
		<-g.wake
		if s.stopping.Load() {
			return
		}
		if s.cfg.Paranoid {
			g.goid = curGoid()
		}
		defer s.gexit(g)
		fn()
	}()
}

// gexit runs as the outermost deferred call of every simulated goroutine.
func (s *Sim) gexit(g *G) {
	r := recover()
	if s.stopping.Load() {
		return // torn down through Goexit (or panicked while being torn down)
	}
	g.state = gDone
	if r != nil {
		st := debug.Stack()
		s.panicTop = panicTopFrame(st)
		s.setOutcome("panic", fmt.Sprintf("goroutine %d (%s): %v\n%s", g.id, g.name, r, trimStack(st)))
		s.signalFinish()
		return
	}
	s.ev("exit", 0)
	s.progress++
	if g.id == 0 {
		s.mainDone = true
		s.setOutcome("ok", "")
		s.signalFinish()
		return
	}
	next := s.next(nil)
	if next == nil {
		s.signalFinish()
		return
	}
	s.cur = next
	s.switches++
	s.sigSwitch(g, next)
	next.wake <- struct{}{}
}

func (s *Sim) setOutcome(o, d string) {
	if s.outcome == "" {
		s.outcome = o
		s.detail = d
		if o != "ok" {
			s.blocked = s.blockedReport()
		}
	}
}

func (s *Sim) signalFinish() {
	if s.finOnce.CompareAndSwap(false, true) {
		close(s.finished)
	}
}

// abort ends the run from inside a simulated goroutine that is in the middle of user code.
func (s *Sim) abort(o, d string) {
	me := s.cur
	s.setOutcome(o, d)
	s.signalFinish()
	<-me.wake
	runtime.Goexit()
}

func (s *Sim) Stopping() bool { return s.stopping.Load() }

// ---------------------------------------------------------------------------------------
// Scheduling

func (s *Sim) eligible(exclude *G) []*G {
	var r []*G
	for _, g := range s.gs {
		if g == exclude {
			continue
		}
		switch g.state {
		case gRunnable:
			r = append(r, g)
		case gBlocked:
			if g.blockedAt < s.progress || (s.sweeping && s.sweepAt == s.progress && g.sweepGen < s.sweepGen) {
				r = append(r, g)
			}
		}
	}
	return r
}

// next decides who runs. exclude is a goroutine that must not be chosen (nil if none).
// It returns nil after having set an outcome when the run cannot continue.
func (s *Sim) next(exclude *G) *G {
	for {
		for len(s.timers) > 0 && s.timers.peek().at <= s.now && s.cfg.TickPerStep > 0 {
			s.fireTimer()
		}
		R := s.eligible(exclude)
		if len(R) > 0 {
			if s.timerP > 0 && len(s.timers) > 0 && s.earlyBud > 0 {
				if s.tape.Bool(s.timerP) {
					s.earlyBud--
					s.fireTimer()
					continue
				}
			}
			g := s.choose(R)
			if g.state == gBlocked && g.blockedAt >= s.progress {
				g.sweepGen = s.sweepGen
			}
			return g
		}
		if !(s.sweeping && s.sweepAt == s.progress) {
			anyBlocked := false
			for _, g := range s.gs {
				if g != exclude && g.state == gBlocked {
					anyBlocked = true
				}
			}
			s.sweeping, s.sweepAt = true, s.progress
			s.sweepGen++
			if anyBlocked {
				continue
			}
		}
		// nothing can move at this instant
		for _, g := range s.gs {
			if g.state == gQuiesce && g != exclude && (!g.quiesceTimers || len(s.timers) == 0) {
				g.state = gRunnable
				return g
			}
		}
		if len(s.timers) > 0 {
			s.fireTimer()
			if s.now > s.cfg.MaxSimTime {
				s.setOutcome("time-cap", fmt.Sprintf("simulated time %v exceeded", s.cfg.MaxSimTime))
				return nil
			}
			continue
		}
		// also consider the excluded goroutine itself: if it is the only one, nobody can wake it
		s.setOutcome("deadlock", "no goroutine can make progress and no timer is pending")
		return nil
	}
}

func (s *Sim) fireTimer() {
	t := heap.Pop(&s.timers).(*timer)
	if t.dead {
		return
	}
	t.dead = true
	if t.at > s.now {
		s.now = t.at
	}
	s.ev("timer", uint64(t.at))
	t.fn()
	s.progress++
}

func (s *Sim) choose(R []*G) *G {
	if len(R) == 1 {
		R[0].lastRun = s.decisions
		return R[0]
	}
	// order: current first (if present), then by id
	curIdx := -1
	for i, g := range R {
		if g == s.cur {
			curIdx = i
		}
	}
	if curIdx > 0 {
		c := R[curIdx]
		copy(R[1:curIdx+1], R[0:curIdx])
		R[0] = c
	}
	s.decisions++
	v := s.tape.Draw(len(R), func(r *Rand) int {
		// weak fairness: a goroutine that has been runnable but not chosen for FairnessBound decisions
		// runs now (busy loops polling a flag would otherwise starve the goroutine that sets it)
		oldest := -1
		for i, g := range R {
			if s.decisions-g.lastRun > s.fairBound && (oldest < 0 || g.lastRun < R[oldest].lastRun) {
				oldest = i
			}
		}
		if oldest >= 0 {
			return oldest
		}
		return s.strategyPick(R, curIdx >= 0)
	})
	R[v].lastRun = s.decisions
	return R[v]
}

func (s *Sim) strategyPick(R []*G, curFirst bool) int {
	n := len(R)
	switch s.strat {
	case StratRunToBlock:
		if curFirst {
			return 0
		}
		return s.srng.Intn(n)
	case StratPCT:
		best := 0
		for i, g := range R {
			if g.prio > R[best].prio {
				best = i
			}
		}
		return best
	case StratStarve:
		cand := make([]int, 0, n)
		for i, g := range R {
			if !s.isVictim(g) {
				cand = append(cand, i)
			}
		}
		if len(cand) == 0 {
			return s.srng.Intn(n)
		}
		if curFirst && !s.isVictim(R[0]) && s.srng.Float() >= s.switchP {
			return 0
		}
		return cand[s.srng.Intn(len(cand))]
	}
	// random walk
	if curFirst {
		if s.srng.Float() >= s.switchP {
			return 0
		}
		return 1 + s.srng.Intn(n-1)
	}
	return s.srng.Intn(n)
}

func (s *Sim) isVictim(g *G) bool {
	if s.cfg.StarveName != "" {
		return strings.Contains(g.name, s.cfg.StarveName)
	}
	return g.id == s.starveOrd
}

func (s *Sim) sigSwitch(from, to *G) {
	s.ssig = (s.ssig ^ uint64(from.id+1)) * 1099511628211
	s.ssig = (s.ssig ^ uint64(to.id+1)<<8) * 1099511628211
	s.ssig = (s.ssig ^ uint64(s.steps)) * 1099511628211
}

func (s *Sim) switchTo(next *G) {
	me := s.cur
	if next == me {
		return
	}
	s.cur = next
	s.switches++
	s.sigSwitch(me, next)
	next.wake <- struct{}{}
	<-me.wake
	if s.stopping.Load() {
		runtime.Goexit()
	}
}

func (s *Sim) check() {
	if s.cfg.Paranoid {
		if id := curGoid(); s.cur.goid != 0 && id != s.cur.goid {
			fmt.Printf("DSIM-FOREIGN-GOROUTINE goid=%d cur=%d(%s)\n%s\n", id, s.cur.id, s.cur.name, debug.Stack())
			panic("dsim: foreign goroutine entered a simulator primitive")
		}
	}
}

func (s *Sim) step(op string, arg uint64) {
	s.steps++
	s.cur.steps++
	if s.cfg.TickPerStep > 0 {
		s.now += s.cfg.TickPerStep
	}
	s.ev(op, arg)
	if s.pctPoints != nil && s.pctPoints[s.steps] {
		s.pctLow--
		s.cur.prio = s.pctLow
	}
	if s.steps > s.cfg.MaxSteps {
		s.abort("step-cap", fmt.Sprintf("more than %d steps", s.cfg.MaxSteps))
	}
}

// Yield is a scheduling point: the current goroutine stays runnable, another may be chosen.
func (s *Sim) Yield(op string) {
	if s.stopping.Load() {
		return
	}
	s.check()
	s.step(op, 0)
	n := s.next(nil)
	if n == nil {
		s.abort(s.outcome, s.detail)
	}
	s.switchTo(n)
}

// Block: the current goroutine found it cannot proceed (lock held, channel not ready ...).
// It returns when the goroutine has been scheduled again and should retry.
func (s *Sim) Block(what string) {
	if s.stopping.Load() {
		return
	}
	s.check()
	me := s.cur
	me.state = gBlocked
	me.blockedAt = s.progress
	me.waitOn = what
	s.step("block:"+what, 0)
	n := s.next(nil)
	if n == nil {
		s.abort(s.outcome, s.detail)
	}
	s.switchTo(n)
	me.state = gRunnable
	me.waitOn = ""
}

// Progress records that shared state changed, so blocked goroutines are worth retrying.
func (s *Sim) Progress() { s.progress++ }

// Park puts the current goroutine to sleep until Unpark(g) (used by Sleep).
func (s *Sim) park(what string) {
	me := s.cur
	me.state = gSleeping
	me.waitOn = what
	s.step("park:"+what, 0)
	n := s.next(me)
	if n == nil {
		s.abort(s.outcome, s.detail)
	}
	s.switchTo(n)
	me.waitOn = ""
}

// Quiesce blocks the caller until no other goroutine can run at the current instant
// (without advancing the clock). Returns the number of other goroutines still alive.
func (s *Sim) Quiesce() int { return s.quiesce(false) }

// QuiesceTimers is Quiesce, but simulated time advances (timers fire) until nothing is pending.
func (s *Sim) QuiesceTimers() int { return s.quiesce(true) }

func (s *Sim) quiesce(timers bool) int {
	if s.stopping.Load() {
		return 0
	}
	me := s.cur
	me.quiesceTimers = timers
	me.state = gQuiesce
	me.waitOn = "quiesce"
	s.step("quiesce", 0)
	n := s.next(nil)
	if n == nil {
		s.abort(s.outcome, s.detail)
	}
	s.switchTo(n)
	me.state = gRunnable
	me.waitOn = ""
	alive := 0
	for _, g := range s.gs {
		if g != me && g.state != gDone {
			alive++
		}
	}
	return alive
}

func (s *Sim) Cur() *G { return s.cur }

// Go starts a simulated goroutine.
func (s *Sim) Go(name string, fn func()) {
	if s.stopping.Load() {
		return
	}
	g := s.newG(name)
	s.start(g, fn)
	s.ev("go", uint64(g.id))
	s.progress++
	s.Yield("go")
}

// ---------------------------------------------------------------------------------------
// Time

func (s *Sim) Now() time.Time          { return Epoch0.Add(s.now) }
func (s *Sim) Elapsed() time.Duration  { return s.now }
func (s *Sim) Tape() *Tape             { return s.tape }
func (s *Sim) Steps() int              { return s.steps }
func (s *Sim) Probe(name string)       { s.probes[name]++ }
func (s *Sim) Fault(kind string)       { s.faults[kind]++ }
func (s *Sim) ProbeCount(n string) int { return s.probes[n] }

type TimerHandle struct{ t *timer }

// AfterFunc registers fn to run (in scheduler context, must not block) after d.
func (s *Sim) AfterFunc(d time.Duration, fn func()) TimerHandle {
	if d < 0 {
		d = 0
	}
	s.tseq++
	t := &timer{at: s.now + d, seq: s.tseq, fn: fn}
	heap.Push(&s.timers, t)
	return TimerHandle{t}
}

// Stop reports whether the timer was still pending.
func (h TimerHandle) Stop() bool {
	if h.t == nil || h.t.dead {
		return false
	}
	h.t.dead = true
	return true
}

// Sleep advances simulated time for the calling goroutine.
func (s *Sim) Sleep(d time.Duration) {
	if s.stopping.Load() {
		return
	}
	if d <= 0 {
		s.Yield("sleep0")
		return
	}
	me := s.cur
	s.AfterFunc(d, func() { me.state = gRunnable })
	s.park("sleep")
}

// ---------------------------------------------------------------------------------------
// Violations raised from inside the simulation

// Fail records a violation and ends the run.
func (s *Sim) Fail(class, sig, detail string) {
	if s.stopping.Load() {
		return
	}
	s.violation = &Violation{Class: class, Signature: sig, Detail: detail}
	s.abort("violation", class+": "+sig)
}

// ---------------------------------------------------------------------------------------
// Trace

func (s *Sim) ev(op string, arg uint64) {
	gid := 0
	if s.cur != nil {
		gid = s.cur.id
	}
	h := s.thash
	h = (h ^ uint64(gid)) * 1099511628211
	for i := 0; i < len(op); i++ {
		h = (h ^ uint64(op[i])) * 1099511628211
	}
	h = (h ^ arg) * 1099511628211
	s.thash = h
	s.ring[s.ringN%len(s.ring)] = event{s.steps, gid, op, arg}
	s.ringN++
}

// Event lets harness code add to the trace (and its hash).
func (s *Sim) Event(op string, arg uint64) { s.ev(op, arg) }

func (s *Sim) traceTail() []string {
	n := s.ringN
	start := 0
	if n > len(s.ring) {
		start = n - len(s.ring)
	}
	out := make([]string, 0, n-start)
	for i := start; i < n; i++ {
		e := s.ring[i%len(s.ring)]
		name := ""
		if e.gid < len(s.gs) {
			name = s.gs[e.gid].name
		}
		out = append(out, fmt.Sprintf("%d g%d(%s) %s %d", e.step, e.gid, name, e.op, e.arg))
	}
	return out
}

func (s *Sim) blockedReport() []string {
	var out []string
	for _, g := range s.gs {
		switch g.state {
		case gBlocked, gSleeping, gQuiesce:
			out = append(out, fmt.Sprintf("g%d(%s) waits on %s", g.id, g.name, g.waitOn))
		case gRunnable:
			out = append(out, fmt.Sprintf("g%d(%s) runnable", g.id, g.name))
		}
	}
	sort.Strings(out)
	return out
}

// ---------------------------------------------------------------------------------------
// helpers

func curGoid() int64 {
	var buf [64]byte
	n := runtime.Stack(buf[:], false)
	b := buf[:n]
	b = bytes.TrimPrefix(b, []byte("goroutine "))
	if i := bytes.IndexByte(b, ' '); i > 0 {
		id, _ := strconv.ParseInt(string(b[:i]), 10, 64)
		return id
	}
	return -1
}

func trimStack(st []byte) string {
	lines := strings.Split(string(st), "\n")
	if len(lines) > 60 {
		lines = lines[:60]
	}
	return strings.Join(lines, "\n")
}

// panicTopFrame returns the first frame below the panic machinery, as "func" (no addresses,
// no line numbers: stable across unrelated edits).
func panicTopFrame(st []byte) string {
	lines := strings.Split(string(st), "\n")
	seenPanic := false
	for i := 0; i < len(lines); i++ {
		l := strings.TrimSpace(lines[i])
		if strings.HasPrefix(l, "panic(") {
			seenPanic = true
			continue
		}
		if !seenPanic || l == "" || strings.HasPrefix(l, "/") || strings.Contains(l, ".go:") {
			continue
		}
		if strings.HasPrefix(l, "runtime.") || strings.HasPrefix(l, "dsim.") || strings.HasPrefix(l, "dsim/") {
			continue
		}
		if j := strings.LastIndex(l, "("); j > 0 {
			l = l[:j]
		}
		return l
	}
	return "unknown"
}

// GoNoYield registers a goroutine without a scheduling point (callable from timer callbacks).
func (s *Sim) GoNoYield(name string, fn func()) {
	if s.stopping.Load() {
		return
	}
	g := s.newG(name)
	s.start(g, fn)
	s.progress++
}
