// Package fault is the fault plan of a simulated run: which fault kinds are enabled with
// which probability, until when, and with what budget. Every coin is a tape draw; a fault is
// counted only when it actually fires.
package fault

import (
	"fmt"
	"os"
	"runtime/debug"
	"strings"
	"time"

	"dsim"
)

// Noter is implemented by goroutine tags that want to know which faults fired in their context.
type Noter interface{ NoteFault(kind string) }

type Plan struct {
	P      map[string]float64 // probability per opportunity, per kind
	Budget int                // total faults allowed (<0: unlimited)
	Until  time.Duration      // simulated time after which no fault fires (0: no limit)
	Off    bool
	Fired  int
	Skip   int // opportunities (of enabled kinds) to let pass before any fault may fire: places faults late in an operation
	Seen   int
}

const key = "fault.plan"

var traceFaults = os.Getenv("VERIF_TRACE_FAULTS") == "1"

func shortStack() string {
	lines := strings.Split(string(debug.Stack()), "\n")
	var out []string
	for _, l := range lines {
		if strings.Contains(l, "/repo/") {
			out = append(out, strings.TrimSpace(l))
		}
	}
	if len(out) > 8 {
		out = out[:8]
	}
	return "  " + strings.Join(out, "\n  ")
}

// Install attaches the plan to the active simulation.
func Install(p *Plan) {
	if s := dsim.Active(); s != nil {
		s.Values[key] = p
	}
}

func Current() *Plan {
	s := dsim.Active()
	if s == nil {
		return nil
	}
	p, _ := s.Values[key].(*Plan)
	return p
}

// Stop closes the fault window.
func Stop() {
	if p := Current(); p != nil {
		p.Off = true
	}
}

// Fire reports whether a fault of this kind happens now.
func Fire(kind string) bool {
	s := dsim.Active()
	if s == nil || s.Stopping() {
		return false
	}
	p, _ := s.Values[key].(*Plan)
	if p == nil || p.Off || p.Budget == 0 {
		return false
	}
	pr := p.P[kind]
	if pr <= 0 {
		return false
	}
	if p.Until > 0 && s.Elapsed() > p.Until {
		return false
	}
	p.Seen++
	if p.Seen <= p.Skip {
		return false
	}
	if !s.Tape().Bool(pr) {
		return false
	}
	if p.Budget > 0 {
		p.Budget--
	}
	p.Fired++
	s.Fault(kind)
	s.Event("fault:"+kind, 0)
	if traceFaults {
		fmt.Printf("FAULT %s fired in g%d(%s)\n%s\n", kind, s.Cur().ID(), s.Cur().Name(), shortStack())
	}
	if n, ok := s.Cur().Tag().(Noter); ok {
		n.NoteFault(kind)
	}
	return true
}

// Intn draws a fault parameter (e.g. how many bytes of a short write) from the tape.
func Intn(n int) int {
	s := dsim.Active()
	if s == nil {
		return 0
	}
	return s.Tape().Intn(n)
}
