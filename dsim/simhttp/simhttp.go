// Package simhttp is the simulated remote object store: an http.RoundTripper serving named
// immutable byte objects with HEAD and Range semantics, and the fault kinds a real remote shows.
package simhttp

import (
	"bytes"
	"errors"
	"fmt"
	"io"
	"net/http"
	"strconv"
	"strings"
	"time"

	"dsim"
	"dsim/fault"
)

type Store struct {
	Objects  map[string][]byte
	Requests int
	// MinLatency/Jitter: simulated time per request (0 = none)
	MinLatency, Jitter time.Duration
}

func NewStore() *Store { return &Store{Objects: map[string][]byte{}} }

func (st *Store) Put(path string, b []byte) { st.Objects[path] = b }

var ErrConn = errors.New("simhttp: connection refused (injected)")

type body struct {
	r      *bytes.Reader
	failAt int // <0: never
	read   int
}

func (b *body) Read(p []byte) (int, error) {
	if s := dsim.Active(); s != nil && !s.Stopping() {
		s.Yield("http.body.read")
	}
	if b.failAt >= 0 && b.read >= b.failAt {
		return 0, io.ErrUnexpectedEOF
	}
	if b.failAt >= 0 && b.read+len(p) > b.failAt {
		p = p[:b.failAt-b.read]
	}
	n, err := b.r.Read(p)
	b.read += n
	return n, err
}
func (b *body) Close() error { return nil }

func resp(req *http.Request, code int, hdr http.Header, data []byte, failAt int) *http.Response {
	if hdr == nil {
		hdr = http.Header{}
	}
	return &http.Response{
		Status: fmt.Sprintf("%d %s", code, http.StatusText(code)), StatusCode: code, Proto: "HTTP/1.1", ProtoMajor: 1, ProtoMinor: 1,
		Header: hdr, Body: &body{r: bytes.NewReader(data), failAt: failAt}, ContentLength: int64(len(data)), Request: req,
	}
}

// junk is what an error page looks like: long enough to fill any small read buffer.
func junk(n int) []byte {
	page := []byte("<html><body><h1>503 Service Unavailable</h1>upstream request failed</body></html>\n")
	out := make([]byte, 0, n)
	for len(out) < n {
		out = append(out, page...)
	}
	return out[:n]
}

func (st *Store) RoundTrip(req *http.Request) (*http.Response, error) {
	s := dsim.Active()
	if s != nil && !s.Stopping() {
		s.Yield("http.roundtrip")
		if st.MinLatency > 0 || st.Jitter > 0 {
			d := st.MinLatency
			if st.Jitter > 0 {
				d += time.Duration(s.Tape().Intn(int(st.Jitter/time.Millisecond)+1)) * time.Millisecond
			}
			s.Sleep(d)
		}
		if fault.Fire("http-latency") {
			s.Sleep(time.Duration(1+fault.Intn(2000)) * time.Millisecond)
		}
	}
	st.Requests++
	if fault.Fire("http-conn-err") {
		return nil, ErrConn
	}
	// an object stored under "host/path" is served to that host only; a bare path to every host
	data, ok := st.Objects[req.URL.Host+req.URL.Path]
	if !ok {
		data, ok = st.Objects[req.URL.Path]
	}
	if !ok {
		return resp(req, 404, nil, []byte("not found\n"), -1), nil
	}
	if req.Method == "HEAD" {
		if fault.Fire("http-head-unsupported") {
			return resp(req, 405, nil, nil, -1), nil
		}
		r := resp(req, 200, nil, nil, -1)
		r.ContentLength = int64(len(data))
		return r, nil
	}
	if fault.Fire("http-status-5xx") {
		return resp(req, 503, nil, junk(1<<16), -1), nil
	}
	if fault.Fire("http-status-404") {
		return resp(req, 404, nil, junk(1<<16), -1), nil
	}
	rng := req.Header.Get("Range")
	if rng == "" || fault.Fire("http-ignores-range") {
		return resp(req, 200, nil, data, -1), nil
	}
	// bytes=a-b (inclusive), clamped to the object
	var a, b int64
	spec := strings.TrimPrefix(rng, "bytes=")
	parts := strings.SplitN(spec, "-", 2)
	a, err1 := strconv.ParseInt(parts[0], 10, 64)
	b = int64(len(data)) - 1
	var err2 error
	if len(parts) == 2 && parts[1] != "" {
		b, err2 = strconv.ParseInt(parts[1], 10, 64)
	}
	if err1 != nil || err2 != nil || a < 0 || a >= int64(len(data)) || b < a {
		h := http.Header{}
		h.Set("Content-Range", fmt.Sprintf("bytes */%d", len(data)))
		return resp(req, 416, h, []byte("range not satisfiable\n"), -1), nil
	}
	if b >= int64(len(data)) {
		b = int64(len(data)) - 1
	}
	h := http.Header{}
	h.Set("Content-Range", fmt.Sprintf("bytes %d-%d/%d", a, b, len(data)))
	part := data[a : b+1]
	failAt := -1
	if fault.Fire("http-short-clean") {
		// a 206 that honestly declares, and cleanly delivers, fewer bytes than were asked for (half
		// of the time none at all): the reader sees a plain io.EOF, not a broken connection
		k := 0
		if fault.Intn(2) == 1 && len(part) > 1 {
			k = fault.Intn(len(part))
		}
		part = part[:k]
		h.Set("Content-Length", fmt.Sprint(len(part)))
		return resp(req, 206, h, part, -1), nil
	}
	if fault.Fire("http-short-body") {
		failAt = fault.Intn(len(part) + 1)
		if failAt == len(part) && len(part) > 0 {
			failAt = len(part) - 1
		}
	}
	return resp(req, 206, h, part, failAt), nil
}
