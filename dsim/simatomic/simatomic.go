// Package simatomic: atomic types whose operations are scheduling points under simulation.
// Under the baton discipline plain fields are already atomic; outside it the real ones are used.
package simatomic

import (
	"sync/atomic"

	"dsim"
)

func y(op string) {
	if s := dsim.Active(); s != nil && !s.Stopping() {
		s.Yield(op)
	}
}

func p() {
	if s := dsim.Active(); s != nil && !s.Stopping() {
		s.Progress()
	}
}

type Bool struct{ v atomic.Bool }

func (b *Bool) Load() bool       { y("atomic.load"); return b.v.Load() }
func (b *Bool) Store(x bool)     { y("atomic.store"); b.v.Store(x); p() }
func (b *Bool) Swap(x bool) bool { y("atomic.swap"); defer p(); return b.v.Swap(x) }
func (b *Bool) CompareAndSwap(o, n bool) bool {
	y("atomic.cas")
	defer p()
	return b.v.CompareAndSwap(o, n)
}

type Int32 struct{ v atomic.Int32 }

func (b *Int32) Load() int32        { y("atomic.load"); return b.v.Load() }
func (b *Int32) Store(x int32)      { y("atomic.store"); b.v.Store(x); p() }
func (b *Int32) Add(d int32) int32  { y("atomic.add"); defer p(); return b.v.Add(d) }
func (b *Int32) Swap(x int32) int32 { y("atomic.swap"); defer p(); return b.v.Swap(x) }
func (b *Int32) CompareAndSwap(o, n int32) bool {
	y("atomic.cas")
	defer p()
	return b.v.CompareAndSwap(o, n)
}

type Int64 struct{ v atomic.Int64 }

func (b *Int64) Load() int64        { y("atomic.load"); return b.v.Load() }
func (b *Int64) Store(x int64)      { y("atomic.store"); b.v.Store(x); p() }
func (b *Int64) Add(d int64) int64  { y("atomic.add"); defer p(); return b.v.Add(d) }
func (b *Int64) Swap(x int64) int64 { y("atomic.swap"); defer p(); return b.v.Swap(x) }
func (b *Int64) CompareAndSwap(o, n int64) bool {
	y("atomic.cas")
	defer p()
	return b.v.CompareAndSwap(o, n)
}

type Uint64 struct{ v atomic.Uint64 }

func (b *Uint64) Load() uint64         { y("atomic.load"); return b.v.Load() }
func (b *Uint64) Store(x uint64)       { y("atomic.store"); b.v.Store(x); p() }
func (b *Uint64) Add(d uint64) uint64  { y("atomic.add"); defer p(); return b.v.Add(d) }
func (b *Uint64) Swap(x uint64) uint64 { y("atomic.swap"); defer p(); return b.v.Swap(x) }
func (b *Uint64) CompareAndSwap(o, n uint64) bool {
	y("atomic.cas")
	defer p()
	return b.v.CompareAndSwap(o, n)
}

type Uint32 struct{ v atomic.Uint32 }

func (b *Uint32) Load() uint32        { y("atomic.load"); return b.v.Load() }
func (b *Uint32) Store(x uint32)      { y("atomic.store"); b.v.Store(x); p() }
func (b *Uint32) Add(d uint32) uint32 { y("atomic.add"); defer p(); return b.v.Add(d) }
func (b *Uint32) CompareAndSwap(o, n uint32) bool {
	y("atomic.cas")
	defer p()
	return b.v.CompareAndSwap(o, n)
}
