#!/usr/bin/env python3
"""Regenerates the seeded-change table of DESIGN.md (between the SEEDED-TABLE markers) from
/verif/seeded/*/meta.json."""
import json, os, re, sys

ROOT = "/verif/seeded"

def short(s, n):
    s = re.sub(r"\s+", " ", (s or "").strip())
    return s if len(s) <= n else s[: n - 1].rstrip() + "…"

def outcome(checks):
    if not checks:
        return "-"
    hit = [k for k, v in checks.items() if v.get("exit") == 1]
    err = [k for k, v in checks.items() if v.get("exit") not in (0, 1)]
    miss = [k for k, v in checks.items() if v.get("exit") == 0]
    parts = []
    if hit:
        parts.append("**" + ", ".join(sorted(hit)) + "**")
    if err:
        parts.append("error: " + ", ".join(sorted(err)))
    if miss:
        parts.append("(quiet: " + ", ".join(sorted(miss)) + ")")
    return " ".join(parts)

rows = []
for d in sorted(os.listdir(ROOT)):
    p = os.path.join(ROOT, d, "meta.json")
    if not os.path.exists(p):
        continue
    m = json.load(open(p))
    first = m.get("first_evaluation", {}).get("our_checks") if m.get("first_evaluation") else None
    cur = m.get("our_checks")
    conf = m.get("confirmed") or {}
    ok = all(conf.get(k) for k in ["patch_applies", "builds", "existing_tests_pass", "demo_fails_with_change", "demo_passes_without"])
    rows.append((d, m.get("property"), short(m.get("breaks"), 150), short(m.get("needs_to_manifest"), 170),
                 "yes" if ok else "partly", outcome(first) if first else outcome(cur), outcome(cur), bool(m.get("detected"))))

out = []
out.append("| change | prop. | what was changed | needs, to show | confirmed | first evaluation | now |")
out.append("|---|---|---|---|---|---|---|")
for r in rows:
    out.append("| `%s` | %s | %s | %s | %s | %s | %s |" % r[:7])
n = len(rows)
det = sum(1 for r in rows if r[7])
out.append("")
out.append("%d changes kept, %d detected by the quick tier of at least one check at the last evaluation." % (n, det))
table = "\n".join(out)

if len(sys.argv) > 1 and sys.argv[1] == "--print":
    print(table)
    sys.exit(0)
p = "/verif/DESIGN.md"
s = open(p).read()
b, e = "<!-- SEEDED-TABLE-BEGIN -->", "<!-- SEEDED-TABLE-END -->"
if b not in s:
    sys.exit("markers missing in DESIGN.md")
s = s[: s.index(b) + len(b)] + "\n" + table + "\n" + s[s.index(e):]
open(p, "w").write(s)
print("table written: %d rows, %d detected" % (n, det))
