#!/usr/bin/env python3
"""Regenerates the thorough-tier table of DESIGN.md (between the THOROUGH-TABLE markers) from
/verif/thorough-runs.log (raw `check ...` lines of bin/check, with `# pass` comment lines)."""
import re, sys

rows = []
note = ""
for line in open("/verif/thorough-runs.log"):
    line = line.rstrip("\n")
    if line.startswith("#"):
        note = line.lstrip("# ").strip()
        continue
    m = re.match(r"check (C\d+) tier=thorough seed=(\d+): runs=(\d+) distinct_nontrivial=(\d+) schedule_signatures=(\d+) violations=(\d+) wall=([\d.]+)s .*exit=(\d)", line)
    if m:
        rows.append((note,) + m.groups())

out = ["| pass | check | seed | runs | distinct non-trivial | schedule signatures | violations | wall s | exit |", "|---|---|---|---|---|---|---|---|---|"]
last = None
for r in rows:
    p = r[0] if r[0] != last else ""
    last = r[0]
    out.append("| %s | %s | %s | %s | %s | %s | %s | %s | %s |" % ((p,) + r[1:]))
total = sum(int(r[3]) for r in rows)
out.append("")
out.append("%d check executions, %d simulated runs in total." % (len(rows), total))
table = "\n".join(out)
p = "/verif/DESIGN.md"
s = open(p).read()
b, e = "<!-- THOROUGH-TABLE-BEGIN -->", "<!-- THOROUGH-TABLE-END -->"
if b not in s:
    sys.exit("markers missing in DESIGN.md")
s = s[: s.index(b) + len(b)] + "\n" + table + "\n" + s[s.index(e):]
open(p, "w").write(s)
print("thorough table: %d rows" % len(rows))
