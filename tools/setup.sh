#!/bin/sh
# Builds the framework binaries from files on disk only (offline).
set -e
export GOFLAGS=-mod=mod GOPROXY=off GOSUMDB=off GOTOOLCHAIN=local
cd /verif
mkdir -p bin .build evidence replays
(cd simrewrite && go build -o /verif/bin/simrewrite .)
(cd cmd/check && go build -o /verif/bin/check .)
(cd dsim && go build ./...)
echo setup ok
