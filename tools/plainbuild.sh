#!/bin/sh
# Builds/tests a package of /repo with the harness files overlaid but WITHOUT instrumentation
# (for developing harness code such as the world generator).
#   tools/plainbuild.sh test <pkg> [go test args...]     e.g. tools/plainbuild.sh test . -run TestWorldSelf -v
# Overlay: /verif/harness/add/<path> -> /repo/<path>; /verif/harness/pkg/<dir|root>/<f>.go -> /repo/<dir>/zz_verif_<f>.go
set -e
export GOFLAGS=-mod=mod GOPROXY=off GOSUMDB=off GOTOOLCHAIN=local
D=/verif/.build/plain
mkdir -p $D
python3 - <<'PY'
import os, json
ov={}
for root,_,files in os.walk('/verif/harness/add'):
    for f in files:
        if f.endswith('.go'):
            p=os.path.join(root,f); rel=os.path.relpath(p,'/verif/harness/add')
            if f=='zz_verif_httpclient.go': continue   # needs the instrumenter's rename
            ov[os.path.join('/repo',rel)]=p
for root,_,files in os.walk('/verif/harness/pkg'):
    for f in files:
        if f.endswith('.go'):
            p=os.path.join(root,f); rel=os.path.relpath(root,'/verif/harness/pkg')
            d='' if rel=='root' else (rel[5:] if rel.startswith('root/') else rel)
            ov[os.path.join('/repo',d,'zz_verif_'+f)]=p
json.dump({"Replace":ov},open('/verif/.build/plain/overlay.json','w'),indent=1)
PY
cp /repo/go.mod $D/go.mod; cp /repo/go.sum $D/go.sum
printf '\nrequire dsim v0.0.0\nreplace dsim => /verif/dsim\nrequire github.com/anishathalye/porcupine v1.3.0\n' >> $D/go.mod
cmd=$1; shift; pkg=$1; shift
VET=-vet=off; [ "$cmd" = build ] && VET=; cd /repo && go $cmd $VET -modfile=$D/go.mod -overlay=$D/overlay.json $pkg "$@"
