#!/usr/bin/env python3
"""Evaluates seeded changes produced by independent sub-agents.
usage: seeded_eval.py <out-dir-of-agent> <variant> <seeded-id> [--tier quick|thorough] [--extra-prop Cxx]
 1. confirms in a scratch worktree: patch applies, builds, existing tests pass, demo fails with / passes without;
 2. applies the patch to /repo, runs the property's check, reverts;
 3. writes /verif/seeded/<seeded-id>/{patch.diff, demo files, meta.json}.
"""
import json, os, shutil, subprocess, sys, time

ENV = dict(os.environ, GOFLAGS="-mod=mod", GOPROXY="off", GOSUMDB="off", GOTOOLCHAIN="local")

def sh(cmd, cwd=None, timeout=3600):
    p = subprocess.run(cmd, shell=True, cwd=cwd, env=ENV, stdout=subprocess.PIPE, stderr=subprocess.STDOUT, timeout=timeout)
    return p.returncode, p.stdout.decode(errors="replace")

def recheck():
    # seeded_eval.py --recheck <seeded-id> [--tier t] [--prop Cxx ...]: re-runs our checks against a kept change
    sid = sys.argv[2]
    d = os.path.join("/verif/seeded", sid)
    meta = json.load(open(os.path.join(d, "meta.json")))
    tier, props = "quick", []
    args = sys.argv[3:]
    i = 0
    while i < len(args):
        if args[i] == "--tier": tier = args[i+1]; i += 2
        elif args[i] == "--prop": props.append(args[i+1]); i += 2
        else: i += 1
    if not props:
        props = list((meta.get("our_checks") or {}).keys()) or [meta["property"]]
    st, out = sh("git -C /repo status --short")
    if out.strip():
        print("refusing: /repo is not clean"); sys.exit(2)
    rc, out = sh(f"git -C /repo apply {d}/patch.diff")
    if rc != 0:
        print("patch does not apply:", out[-300:]); sys.exit(2)
    checks = {}
    try:
        for pr in props:
            t0 = time.time()
            rc, out = sh(f"bin/check {pr} --tier {tier}", cwd="/verif", timeout=7200)
            lines = [l for l in out.splitlines() if l.startswith("VIOLATION") or l.startswith("  class=") or l.startswith("check ") or l.startswith("CHECK-ERROR")]
            checks[pr] = {"tier": tier, "exit": rc, "wall_s": round(time.time()-t0, 1), "lines": [l[:300] for l in lines[:12]]}
    finally:
        sh("git -C /repo checkout -- . && git -C /repo clean -fdq")
    if "our_checks" in meta and meta.get("our_checks") and "first_evaluation" not in meta:
        meta["first_evaluation"] = {"our_checks": meta["our_checks"], "detected": meta.get("detected")}
    meta["our_checks"] = checks
    meta["detected"] = any(c["exit"] == 1 for c in checks.values())
    meta["rechecked_at_verif_commit"] = sh("git -C /verif rev-parse --short HEAD")[1].strip()
    json.dump(meta, open(os.path.join(d, "meta.json"), "w"), indent=1)
    print(json.dumps({"id": sid, "detected": meta["detected"], "checks": {k: (v["exit"], v["lines"][:2]) for k, v in checks.items()}})[:900])

def main():
    if sys.argv[1] == "--recheck":
        return recheck()
    src, variant, sid = sys.argv[1], sys.argv[2], sys.argv[3]
    tier = "quick"
    props = []
    args = sys.argv[4:]
    i = 0
    while i < len(args):
        if args[i] == "--tier": tier = args[i+1]; i += 2
        elif args[i] == "--extra-prop": props.append(args[i+1]); i += 2
        else: i += 1
    vdir = os.path.join(src, variant)
    meta = json.load(open(os.path.join(vdir, "meta.json")))
    prop = meta["property"]
    props = [prop] + props
    patch = os.path.join(vdir, "patch.diff")
    res = {"property": prop, "variant": variant, "source": src, "agent_meta": meta, "ran": []}
    wt = "/tmp/wt/eval-" + sid
    sh(f"git -C /repo worktree remove --force {wt}")
    rc, out = sh(f"git -C /repo worktree add -q --detach {wt} HEAD")
    try:
        rc, out = sh(f"git apply {patch}", cwd=wt)
        res["patch_applies"] = rc == 0
        if rc != 0:
            res["error"] = out[-2000:]
            return finish(res, sid, vdir)
        rc, out = sh("go build ./...", cwd=wt)
        res["builds"] = rc == 0
        rc, out = sh("go test -vet=off -count=1 ./... 2>&1 | grep -v 'no test files'", cwd=wt, timeout=1800)
        fails = [l for l in out.splitlines() if l.startswith("FAIL") or l.startswith("--- FAIL")]
        if fails and all("compactindex" in f and "deprecated" in f or "TestBuilder_Random" in f or f.strip() == "FAIL" for f in fails):
            rc2, out2 = sh("go test -vet=off -count=1 ./deprecated/compactindex/", cwd=wt)
            fails = [] if rc2 == 0 else fails
        res["existing_tests_pass"] = not fails
        res["existing_tests_failures"] = fails[:5]
        rc, out = sh(f"bash {vdir}/demo.sh {wt}", cwd=wt, timeout=1800)
        res["demo_fails_with_change"] = rc != 0
        sh("git checkout -- . ", cwd=wt)
        rc, out = sh(f"bash {vdir}/demo.sh {wt}", cwd=wt, timeout=1800)
        res["demo_passes_without"] = rc == 0
        res["ran"].append("scratch worktree: git apply; go build ./...; go test -vet=off -count=1 ./...; demo.sh with and without the patch")
    finally:
        sh(f"git -C /repo worktree remove --force {wt}")
    if "--confirm-only" in sys.argv:
        return finish(res, sid, vdir)
    # our check
    st, _ = sh("git -C /repo status --short")
    rc, out = sh(f"git -C /repo apply {patch}")
    if rc != 0:
        res["error"] = "patch does not apply to /repo: " + out[-500:]
        return finish(res, sid, vdir)
    res["checks"] = {}
    try:
        for pr in props:
            t0 = time.time()
            rc, out = sh(f"bin/check {pr} --tier {tier}", cwd="/verif", timeout=7200)
            lines = [l for l in out.splitlines() if l.startswith("VIOLATION") or l.startswith("  class=") or l.startswith("check ") or l.startswith("CHECK-ERROR")]
            res["checks"][pr] = {"tier": tier, "exit": rc, "wall_s": round(time.time()-t0, 1), "lines": [l[:300] for l in lines[:12]]}
            res["ran"].append(f"git -C /repo apply patch.diff; bin/check {pr} --tier {tier}; git -C /repo checkout -- .")
    finally:
        sh("git -C /repo checkout -- . && git -C /repo clean -fdq")
    res["detected"] = any(c["exit"] == 1 for c in res["checks"].values())
    finish(res, sid, vdir)

def finish(res, sid, vdir):
    d = os.path.join("/verif/seeded", sid)
    os.makedirs(d, exist_ok=True)
    for f in os.listdir(vdir):
        if f != "meta.json":
            shutil.copy(os.path.join(vdir, f), os.path.join(d, f))
    m = res["agent_meta"]
    out = {"property": res["property"], "breaks": m.get("summary"), "mechanism": m.get("mechanism"), "needs_to_manifest": m.get("needs"),
           "files_changed": m.get("files_changed"), "origin": "independent sub-agent given only the property text and a scratch worktree",
           "confirmed": {k: res.get(k) for k in ["patch_applies", "builds", "existing_tests_pass", "demo_fails_with_change", "demo_passes_without"]},
           "what_was_run": res.get("ran"), "our_checks": res.get("checks"), "detected": res.get("detected"), "error": res.get("error")}
    json.dump(out, open(os.path.join(d, "meta.json"), "w"), indent=1)
    print(json.dumps({"id": sid, "confirmed": out["confirmed"], "detected": out["detected"], "checks": {k: (v["exit"], v["lines"][:3]) for k, v in (out["our_checks"] or {}).items()}}, indent=1)[:1500])

main()
