#!/usr/bin/env python3
"""Regenerates /verif/MANIFEST.json from the table below (claimed checks) and the not-applicable list."""
import json, subprocess

ENV = "GOFLAGS=-mod=mod GOPROXY=off GOSUMDB=off GOTOOLCHAIN=local"
claimed = json.load(open('/verif/tools/claims.json'))
props = [json.loads(l) for l in open('/verif/properties.jsonl')]
checks = []
for p in props:
    c = claimed.get(p['id'])
    if not c or c.get('not_applicable'):
        continue
    checks.append({
        "property_id": p['id'],
        "quick_cmd": f"bin/check {p['id']} --tier quick",
        "thorough_cmd": f"bin/check {p['id']} --tier thorough",
        "evidence_file": f"/verif/evidence/{p['id']}.json",
        "replay_cmd_template": "bin/check replay {path}",
        "engine": c.get("engine", "dsim"),
        "level_claimed": {"category": c["level"], "text": c["text"], "design_ref": c.get("design_ref", "DESIGN.md §6")},
        "level_note": c["note"],
        "technique": c.get("technique", "deterministic simulation with fault injection: seeded schedule/fault search over instrumented real code, oracle = executable reference model"),
    })
na = []
for p in props:
    c = claimed.get(p['id'])
    if c and c.get('not_applicable'):
        na.append({"property_id": p['id'], "reason": c['not_applicable']})
    elif not c:
        na.append({"property_id": p['id'], "reason": "no check is registered for this property yet (work in progress in this framework; see DESIGN.md)"})
m = {
    "version": 1,
    "setup_cmd": f"cd /verif && {ENV} sh tools/setup.sh",
    "hooks": {
        "guard": "verif",
        "enable": "no source hooks: bin/simrewrite instruments a copy of /repo's working tree at check time and the test binary is built in /repo with `go test -c -overlay <generated> -modfile <generated>`; the build tag `verif` is reserved and unused",
        "baseline_off_cmd": f"cd /repo && {ENV} go test -vet=off -count=1 ./...",
        "source_commits": [],
        "add_only": True,
    },
    "engines": [
        {"name": "dsim", "path": "/verif/dsim", "serves_properties": [c["property_id"] for c in checks],
         "kind_free_text": "deterministic simulation kernel (choice tape, baton scheduler over real goroutines, simulated clock, simulated sync/time/context/errgroup/channels, fault-injecting disk/http), AST instrumenter (simrewrite), per-process runner with tape shrinking and replay, driver (cmd/check)"},
    ],
    "checks": checks,
    "not_applicable": na,
    "notes": "Exit codes of every check: 0 held, 1 VIOLATION (confirmed by fresh-process replay of the minimised tape), 2 machinery could not decide. VERIF_SEED and VERIF_TIER are honoured.",
}
json.dump(m, open('/verif/MANIFEST.json', 'w'), indent=1)
print("checks:", [c["property_id"] for c in checks], "n/a:", [n["property_id"] for n in na])
