module check

go 1.21
