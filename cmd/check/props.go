package main

var commonAssumptions = []string{
	"sampling, not enumeration: a clean batch is evidence, not proof",
	"the instrumented program (sync/time/context/errgroup/channel operations routed through the simulator) has only executions the shipped program can exhibit",
	"un-instrumented dependencies do not start goroutines that call back into instrumented code",
}

var expectedProbes = map[string][]string{}

var props = []PropSpec{
	{
		ID: "C18", Pkg: ".", Scenario: "C18", Level: "exploration",
		Quick:    Tier{Runs: 6000, WallS: 60},
		Thorough: Tier{Runs: 300000, WallS: 600},
		Rule: "one run = one job set (0..5 jobs, each succeeds or fails after a tape-chosen number of yields / simulated sleeps), a concurrency limit in {-1,0,1..5}, live or cancelled context, under one seeded schedule of real FirstSuccess; distinct = distinct (job-set digest, schedule signature); non-trivial = at least one context switch",
		Real: []string{"first-success.go (FirstSuccess, JobGroup, ErrorSlice)"},
		Stub: []string{"simerrgroup replaces golang.org/x/sync/errgroup (same API/semantics on simulator primitives)", "jobs are synthetic closures"},
		Assumptions: commonAssumptions,
	},
	{
		ID: "C17", Pkg: "./split-car-fetcher", Scenario: "C17", Level: "exploration",
		Quick:    Tier{Runs: 4000, WallS: 60},
		Thorough: Tier{Runs: 200000, WallS: 600},
		Rule: "one run = one immutable remote file (1..64 bytes dense, up to 70000 sparse), 1..4 concurrent readers with up to 10 operations each over {ReadAt, GetRange, SetRange(true bytes), DeleteOldEntries, Sleep} on overlapping/nested/adjacent/zero-length/out-of-range ranges, the cache GC goroutine on the simulated clock, a per-run subset of remote fault kinds inside a fault window, then reads after the window; distinct = distinct (scenario digest, schedule signature, fired-fault multiset); non-trivial = a context switch or a fired fault",
		Real: []string{"range-cache/range-cache.go", "split-car-fetcher/remote-file.go (NewRemoteHTTPFileAsIoReaderAt, ReadAt, remoteReadAt, retryExpotentialBackoff)", "split-car-fetcher/fetcher.go GetContentSizeWithHeadOrZeroRange", "net/http.Client above the RoundTripper"},
		Stub: []string{"dsim/simhttp RoundTripper + object store replaces TCP and the remote web server (cut at http.RoundTripper; NewHTTPClient overridden to use it)"},
		Assumptions: commonAssumptions,
	},
}
