package main

var commonAssumptions = []string{
	"sampling, not enumeration: a clean batch is evidence, not proof",
	"the instrumented program (sync/time/context/errgroup/channel operations routed through the simulator) has only executions the shipped program can exhibit",
	"un-instrumented dependencies do not start goroutines that call back into instrumented code",
}

var expectedProbes = map[string][]string{}

var props = []PropSpec{
	{
		ID: "C18", Pkg: ".", Scenario: "C18", Level: "exploration",
		Quick:       Tier{Runs: 6000, WallS: 60},
		Thorough:    Tier{Runs: 300000, WallS: 600},
		Rule:        "one run = one job set (0..5 jobs, each succeeds or fails after a tape-chosen number of yields / simulated sleeps), a concurrency limit in {-1,0,1..5}, live or cancelled context, under one seeded schedule of real FirstSuccess; distinct = distinct (job-set digest, schedule signature); non-trivial = at least one context switch",
		Real:        []string{"first-success.go (FirstSuccess, JobGroup, ErrorSlice)"},
		Stub:        []string{"simerrgroup replaces golang.org/x/sync/errgroup (same API/semantics on simulator primitives)", "jobs are synthetic closures"},
		Assumptions: commonAssumptions,
	},
	{
		ID: "C17", Pkg: "./split-car-fetcher", Scenario: "C17", Level: "exploration",
		Quick:       Tier{Runs: 4000, WallS: 60},
		Thorough:    Tier{Runs: 200000, WallS: 600},
		Rule:        "one run = one immutable remote file (1..64 bytes dense, up to 70000 sparse), 1..4 concurrent readers with up to 10 operations each over {ReadAt, GetRange, SetRange(true bytes), DeleteOldEntries, Sleep} on overlapping/nested/adjacent/zero-length/out-of-range ranges, the cache GC goroutine on the simulated clock, a per-run subset of remote fault kinds inside a fault window, then reads after the window; distinct = distinct (scenario digest, schedule signature, fired-fault multiset); non-trivial = a context switch or a fired fault",
		Real:        []string{"range-cache/range-cache.go", "split-car-fetcher/remote-file.go (NewRemoteHTTPFileAsIoReaderAt, ReadAt, remoteReadAt, retryExpotentialBackoff)", "split-car-fetcher/fetcher.go GetContentSizeWithHeadOrZeroRange", "net/http.Client above the RoundTripper"},
		Stub:        []string{"dsim/simhttp RoundTripper + object store replaces TCP and the remote web server (cut at http.RoundTripper; NewHTTPClient overridden to use it)"},
		Assumptions: commonAssumptions,
	},
	{
		ID: "C06", Pkg: "./gsfa", Scenario: "C06", Level: "exploration", Env: map[string]string{"VERIF_REAL_RULE": "1", "VERIF_REAL_SEARCH": "25"},
		Quick:       Tier{Runs: 3000, WallS: 90, ShrinkS: 40},
		Thorough:    Tier{Runs: 60000, WallS: 900, ShrinkS: 120},
		Rule:        "one run = one push history (1..6 addresses, or enough distinct addresses to cross the periodic-flush population; a focus address with k*B+delta entries; duplicate keys; slots landing on the %500 trigger; pauses that let the flusher's 1 s timer fire) through the real GsfaWriter with its background flusher under one seeded schedule, Close, then GsfaReader.Get for every address compared with the reversed push model; thresholds shrunk per run through knobs (batch size, channel capacity, tmpBuf, flush population) or real (about 4% of runs, counts 1/999..1001/1999..2001/3000/5000, and directed batches whose record length is 126..129 and 16382..16385); distinct = distinct (history digest, schedule signature); non-trivial = at least one context switch",
		Real:        []string{"gsfa/gsfa-write.go", "gsfa/gsfa-read.go", "gsfa/linkedlog", "gsfa/manifest", "gsfa/pop-rank.go", "indexes/index-pubkey-to-offset-and-size.go", "compactindexsized", "tooling/compress.go", "real files in a per-run scratch directory"},
		Stub:        []string{"hashmap preallocation hint (1_000_000) lowered to 1024 in every simulated run (no semantic effect)"},
		Assumptions: append([]string{"a violation found with shrunken thresholds is reported only if it reproduces with every threshold at its real value (real-constants rule)"}, commonAssumptions...),
	},
	{
		ID: "C15", Pkg: "./accum", Scenario: "C15", Level: "exploration",
		Quick:       Tier{Runs: 4000, WallS: 60},
		Thorough:    Tier{Runs: 150000, WallS: 600},
		Rule:        "one run = one generated CAR (0..6 blocks with 0..N children of every kind, more children than the preallocation knob, trailing non-block objects, section lengths 1..3 varint bytes, 1..2 roots) traversed by the real carreader over a stream with legal short reads and the real ObjectAccumulator.Run (reader goroutine, queue, flusher goroutine, pool, WaitGroup) with an ignore-set, SetSkip, and a consumer callback that is instantaneous / yields / sleeps, under one seeded schedule; 20% of runs inject a read error at a tape-chosen byte; distinct = distinct (layout digest, schedule signature, fault multiset); non-trivial = a context switch or fired fault",
		Real:        []string{"accum/block.go", "carreader/reader.go"},
		Stub:        []string{"objects are synthetic (kind byte + random payload), not ledger nodes; the file is an in-memory stream reader"},
		Assumptions: commonAssumptions,
	},
	{
		ID: "C14", Pkg: "./accum", Scenario: "C14", Level: "fault_enumeration",
		Quick:       Tier{Runs: 3000, WallS: 60},
		Thorough:    Tier{Runs: 120000, WallS: 600},
		Rule:        "one run = one payload (0..200 KiB) split into 1..60 reference-encoded frames with next-link fan-out 1..10 in the schema comment's layout, CRC64 / legacy FNV / no checksum, with or without total; the real LoadDataFromDataFrames is run fault-free and then once per (frame, fault) for every frame of the chain and every fault kind {drop, duplicate, bit flip, swap with the same-index frame of a second payload, index altered, next-link cycle}, plus the same payload as transaction metadata through accum.ObjectsToTransactionsAndMetadata with permuted storage order, a dropped frame and a flipped bit; evaluations = runs (each run enumerates its chain's whole fault set; the number of fault cases is probe c14.cases); distinct = distinct (chain shape digest, fault multiset); non-trivial = at least one fault case applied",
		Real:        []string{"tooling/data-frames.go", "ipld/ipldbindcode/methods.go (VerifyHash, frame accessors)", "iplddecoders (DecodeDataFrame, DecodeTransaction)", "accum/tx.go"},
		Stub:        []string{"frame store = in-memory map behind the dataFrameGetter seam"},
		Assumptions: []string{"sequential code: no interleaving is explored; the claim rests on the fetch seam and the enumerated single-fault set", "a CRC64/FNV collision between the original and a faulted payload is treated as impossible"},
	},
	{
		ID: "C04", Pkg: "./compactindexsized", Scenario: "C04", Level: "exploration",
		More: []Part{{Pkg: "./deprecated/compactindex", Scenario: "C04L8", Share: 0.2}, {Pkg: "./deprecated/compactindex36", Scenario: "C04L36", Share: 0.2}},
		Quick:       Tier{Runs: 1200, WallS: 90},
		Thorough:    Tier{Runs: 30000, WallS: 900},
		Rule:        "one run = one key set (1..400 keys quick, up to 60 000 thorough; key lengths 0..65 535; value sizes 1..255; declared count 1x..10x or below the real count; adversarial keys sharing a bucket; metadata) built by the real Builder on the simulated disk (Insert, Seal, spill files), read back through a file / mmap / ReaderAt showing every legal variant of the ReaderAt contract and compared key by key with an in-memory map; twice for byte-identity, once in a permuted insertion order; error modes: duplicate key, oversize key, value size 0/256; 30% of clean-input runs inject one or two reported disk faults (write error, short write, open, seek, read, sync, close, short read) and apply 'nil from every call => full oracle'; distinct = distinct (key-set digest, configuration, fault multiset); every run is non-trivial (it builds and queries an index)",
		Real:        []string{"compactindexsized/build.go", "compactindexsized/query.go", "compactindexsized/compactindex.go", "indexmeta"},
		Stub:        []string{"dsim/simos wraps real files (fault layer); fallocate goes to the real fd"},
		Assumptions: []string{"the key-set quantifier itself is covered by seeded generation only (no exhaustive small-scope enumeration)", "only reported disk faults are injected: no silently lost writes"},
	},
	{
		ID: "C05", Pkg: "./bucketteer", Scenario: "C05", Level: "exploration",
		More:     []Part{{Pkg: "./deprecated/bucketteer", Scenario: "C05L", Share: 0.3}},
		Quick:    Tier{Runs: 1500, WallS: 90},
		Thorough: Tier{Runs: 40000, WallS: 900},
		Rule: "one run = one multiset of 64-byte signatures (bucket populations 0,1,2,3,2^k-1,2^k,2^k+1 over a small prefix pool that often contains the first and the last bucket, optional uniform sprinkle, duplicates, any insertion order, metadata) written by the real Writer through dsim/simos, sealed, and read back through Open (mmap) / a file / a ReaderAt showing every legal variant of the ReaderAt contract; oracle: every added signature is present in writer and file, an absent signature is present only if the model (xxhash64 computed independently) has its prefix+hash, writer and file agree; 30% of runs inject one or two reported disk faults into NewWriter/Seal/Close and require 'nil from every call => full oracle'; both the current and the legacy format; distinct = distinct (multiset digest, configuration, fault multiset)",
		Real: []string{"bucketteer/write.go", "bucketteer/read.go", "bucketteer/bucketteer.go", "deprecated/bucketteer"},
		Stub: []string{"dsim/simos wraps real files (fault layer); per-prefix preallocation hint lowered from 16 000 to 4 (no semantic effect)"},
		Assumptions: []string{"multisets are sampled up to a few hundred signatures in the quick tier; the 200 000-element end of the quantifier is not reached", "only reported disk faults are injected"},
	},
	{
		ID: "C16", Pkg: "./split-car-fetcher", Scenario: "C16R", Level: "exploration",
		Quick:    Tier{Runs: 3000, WallS: 60},
		Thorough: Tier{Runs: 150000, WallS: 600},
		Rule: "reader half: one run = one piece-size vector (0..14 pieces, each with its own header 0..5, content 0..6 bytes dense or up to 70 000 sparse, optional padding) behind simulated piece readers that show every legal ReaderAt variant, whose creators finish in a tape-chosen order under the real limit-10 errgroup of NewSplitCarReader, with 1..3 concurrent readers probing every (offset,length) when the whole is <= 48 bytes and boundary-biased samples otherwise, against the model concatenation; 25% of runs make one piece fail from a tape-chosen content offset, 10% make one creator fail; distinct = distinct (size vector, fault placement, schedule signature)",
		Real: []string{"split-car-fetcher/fetcher.go (NewSplitCarReader, SplitCarReader, MultiReaderAt)"},
		Stub: []string{"piece readers are in-memory byte slices (ReaderAtCloserSize)"},
		Assumptions: append([]string{"the exhaustive '<= 4 pieces x 0..6 bytes x every (offset,length)' enumeration of the quantifier is sampled, not enumerated (runs with a total of at most 48 bytes do probe every offset/length; probe c16.exhaustive-offset-length counts them)", "the splitter half of the property (cmd-car-split.go on generated epoch CARs) is checked by the server-engine part when present"}, commonAssumptions...),
	},
}
