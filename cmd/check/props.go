package main

var commonAssumptions = []string{
	"sampling, not enumeration: a clean batch is evidence, not proof",
	"the instrumented program (sync/time/context/errgroup/channel operations routed through the simulator) has only executions the shipped program can exhibit",
	"un-instrumented dependencies do not start goroutines that call back into instrumented code",
}

var expectedProbes = map[string][]string{}

var props = []PropSpec{
	{
		ID: "C18", Pkg: ".", Scenario: "C18", Level: "exploration",
		Quick:    Tier{Runs: 6000, WallS: 60},
		Thorough: Tier{Runs: 300000, WallS: 600},
		Rule: "one run = one job set (0..5 jobs, each succeeds or fails after a tape-chosen number of yields / simulated sleeps), a concurrency limit in {-1,0,1..5}, live or cancelled context, under one seeded schedule of real FirstSuccess; distinct = distinct (job-set digest, schedule signature); non-trivial = at least one context switch",
		Real: []string{"first-success.go (FirstSuccess, JobGroup, ErrorSlice)"},
		Stub: []string{"simerrgroup replaces golang.org/x/sync/errgroup (same API/semantics on simulator primitives)", "jobs are synthetic closures"},
		Assumptions: commonAssumptions,
	},
}
