// check is the driver of every registered check: instrument /repo's working tree, build the
// test binary, fan seeds out over worker processes, confirm violations by fresh-process
// replay, apply the known-findings list, write the evidence file.
//
//	check <property> [--tier quick|thorough] [--keep]
//	check replay <file>
//	check selftest-determinism <property>
//
// Exit codes: 0 held (possibly KNOWN-FINDING lines), 1 VIOLATION, 2 the machinery could not decide.
package main

import (
	"bufio"
	"bytes"
	"encoding/json"
	"fmt"
	"os"
	"os/exec"
	"path/filepath"
	"sort"
	"strconv"
	"strings"
	"sync"
	"sync/atomic"
	"syscall"
	"time"
)

const verifDir = "/verif"
const repoDir = "/repo"

type Tier struct {
	Runs    int // simulated runs (seeds)
	WallS   int // wall-clock budget for the search phase
	ShrinkS int
	Watch   int // per-run wall-clock watchdog (s)
}

// Part is an additional (package, scenario) pair of a property hosted in another test binary.
type Part struct {
	Pkg      string
	Scenario string
	Share    float64 // fraction of the tier's runs
}

type PropSpec struct {
	More        []Part
	ID          string
	Pkg         string // package (relative to /repo) whose test binary hosts the scenario
	Scenario    string
	Quick       Tier
	Thorough    Tier
	Level       string
	Rule        string
	Real        []string
	Stub        []string
	Assumptions []string
	Rewrite     string // rewrite config name under /verif/harness/rewrite-<name>.json
	Env         map[string]string
}

type Summary struct {
	Scenario     string           `json:"scenario"`
	Runs         int              `json:"runs"`
	Nontrivial   int              `json:"nontrivial"`
	Inconclusive map[string]int   `json:"inconclusive"`
	Steps        int64            `json:"steps"`
	Switches     int64            `json:"switches"`
	SimTimeNs    int64            `json:"sim_time_ns"`
	Faults       map[string]int   `json:"faults"`
	Probes       map[string]int   `json:"probes"`
	Strategies   map[string]int   `json:"strategies"`
	KnownHits    map[string]int   `json:"known_hits"`
	KnobOnly     map[string]int   `json:"knob_only"`
	Distinct     []uint64         `json:"distinct"`
	SchedSigs    []uint64         `json:"sched_sigs"`
	Samples      []map[string]any `json:"samples"`
	Violations   []ViolationEntry `json:"violations"`
	HarnessErrs  []string         `json:"harness_errors"`
	WallS        float64          `json:"wall_s"`
	DetHash      uint64           `json:"det_hash"`
	Next         int              `json:"next"`
	Complete     bool             `json:"complete"`
}

type Violation struct {
	Class     string `json:"class"`
	Signature string `json:"signature"`
	Detail    string `json:"detail"`
}

type ViolationEntry struct {
	Run       int       `json:"run"`
	Seed      uint64    `json:"seed"`
	Violation Violation `json:"violation"`
	Replay    string    `json:"replay"`
	TapeLen   int       `json:"tape_len"`
}

type KnownFinding struct {
	Property  string `json:"property"`
	Signature string `json:"signature"`
	Status    string `json:"status"` // "known" | "fixed: <commit>"
	Where     string `json:"where,omitempty"`
	What      string `json:"what,omitempty"`
	Replay    string `json:"replay,omitempty"`
}

func die2(format string, a ...any) {
	fmt.Printf("CHECK-ERROR "+format+"\n", a...)
	os.Exit(2)
}

func goEnv() []string {
	env := os.Environ()
	env = append(env, "GOFLAGS=-mod=mod", "GOPROXY=off", "GOSUMDB=off", "GOTOOLCHAIN=local")
	return env
}

func main() {
	if len(os.Args) < 2 {
		die2("usage: check <property> [--tier quick|thorough]")
	}
	switch os.Args[1] {
	case "replay":
		if len(os.Args) < 3 {
			die2("usage: check replay <file>")
		}
		os.Exit(replayCmd(os.Args[2]))
	case "selftest-determinism":
		if len(os.Args) < 3 {
			die2("usage: check selftest-determinism <property>")
		}
		os.Exit(selftestDeterminism(os.Args[2]))
	case "list":
		for _, p := range props {
			fmt.Println(p.ID)
		}
		return
	}
	id := os.Args[1]
	tier := os.Getenv("VERIF_TIER")
	for i := 2; i < len(os.Args); i++ {
		if os.Args[i] == "--tier" && i+1 < len(os.Args) {
			tier = os.Args[i+1]
			i++
		}
	}
	if tier == "" {
		tier = "quick"
	}
	spec := findProp(id)
	if spec == nil {
		die2("unknown property %s", id)
	}
	code := runCheck(spec, tier)
	if code == 2 && atomic.LoadInt64(&resourceDeaths) > 0 && os.Getenv("VERIF_WORKERS") == "" {
		// workers were killed by the system while each of their runs passes alone: the tree under
		// test needs more memory than 16 parallel workers leave (e.g. a preallocation knob that no
		// longer applies to changed code). Repeat once with few workers instead of giving up.
		fmt.Println("NOTE workers were killed by the system although their runs pass alone; repeating the check with 3 workers")
		os.Setenv("VERIF_WORKERS", "3")
		atomic.StoreInt64(&resourceDeaths, 0)
		code = runCheck(spec, tier)
	}
	os.Exit(code)
}

func findProp(id string) *PropSpec {
	for i := range props {
		if props[i].ID == id {
			return &props[i]
		}
	}
	return nil
}

// build instruments the tree and builds the test binary for spec; returns binary path and report.
func build(spec *PropSpec, dir string) (string, map[string]any) { return buildPkg(spec, spec.Pkg, dir) }

func buildPkg(spec *PropSpec, pkg string, dir string) (string, map[string]any) {
	os.MkdirAll(dir, 0o755)
	cfgName := spec.Rewrite
	if cfgName == "" {
		cfgName = "default"
	}
	cfgSrc := filepath.Join(verifDir, "harness", "rewrite-"+cfgName+".json")
	var cfg map[string]any
	b, err := os.ReadFile(cfgSrc)
	if err != nil {
		die2("read %s: %v", cfgSrc, err)
	}
	if err := json.Unmarshal(b, &cfg); err != nil {
		die2("parse %s: %v", cfgSrc, err)
	}
	// harness files: /verif/harness/pkg/<dir>/*.go -> /repo/<dir>/zz_verif_<name> ; /verif/harness/add/<path> -> /repo/<path>
	extra := map[string]string{}
	filepath.Walk(filepath.Join(verifDir, "harness", "pkg"), func(p string, fi os.FileInfo, err error) error {
		if err != nil || fi.IsDir() || !strings.HasSuffix(p, ".go") {
			return nil
		}
		rel, _ := filepath.Rel(filepath.Join(verifDir, "harness", "pkg"), p)
		d := filepath.Dir(rel)
		if d == "root" {
			d = "."
		} else if strings.HasPrefix(d, "root/") {
			d = strings.TrimPrefix(d, "root/")
		}
		extra[filepath.Join(d, "zz_verif_"+filepath.Base(p))] = p
		return nil
	})
	filepath.Walk(filepath.Join(verifDir, "harness", "add"), func(p string, fi os.FileInfo, err error) error {
		if err != nil || fi.IsDir() || !strings.HasSuffix(p, ".go") {
			return nil
		}
		rel, _ := filepath.Rel(filepath.Join(verifDir, "harness", "add"), p)
		extra[rel] = p
		return nil
	})
	// the package's own test files are not part of the check: replace each by an empty file of the same package
	// (they would otherwise have to compile against the instrumented types)
	if own, _ := filepath.Glob(filepath.Join(repoDir, pkg, "*_test.go")); len(own) > 0 {
		stubDir := filepath.Join(dir, "stubs")
		os.MkdirAll(stubDir, 0o755)
		for _, f := range own {
			src, err := os.ReadFile(f)
			if err != nil {
				continue
			}
			pkgLine := ""
			for _, l := range strings.Split(string(src), "\n") {
				if strings.HasPrefix(l, "package ") {
					pkgLine = strings.TrimSpace(l)
					if i := strings.Index(pkgLine, "//"); i > 0 {
						pkgLine = strings.TrimSpace(pkgLine[:i])
					}
					break
				}
			}
			if pkgLine == "" {
				continue
			}
			stub := filepath.Join(stubDir, filepath.Base(f))
			os.WriteFile(stub, []byte(pkgLine+"\n"), 0o644)
			rel, _ := filepath.Rel(repoDir, f)
			extra[rel] = stub
		}
	}
	cfg["extra_files"] = extra
	cb, _ := json.Marshal(cfg)
	cfgPath := filepath.Join(dir, "rewrite.json")
	os.WriteFile(cfgPath, cb, 0o644)

	rw := exec.Command(filepath.Join(verifDir, "bin", "simrewrite"), "-repo", repoDir, "-out", dir, "-cfg", cfgPath)
	rw.Env = goEnv()
	out, err := rw.CombinedOutput()
	if err != nil {
		die2("instrumentation failed: %v\n%s", err, out)
	}
	var report map[string]any
	if rb, err := os.ReadFile(filepath.Join(dir, "report.json")); err == nil {
		json.Unmarshal(rb, &report)
	}
	// modfile
	gm, err := os.ReadFile(filepath.Join(repoDir, "go.mod"))
	if err != nil {
		die2("%v", err)
	}
	mod := string(gm) + "\nrequire dsim v0.0.0\nreplace dsim => " + filepath.Join(verifDir, "dsim") + "\n"
	if bytes.Contains(cb, []byte("porcupine")) || true {
		mod += "require github.com/anishathalye/porcupine v1.3.0\n"
	}
	os.WriteFile(filepath.Join(dir, "go.mod"), []byte(mod), 0o644)
	gs, _ := os.ReadFile(filepath.Join(repoDir, "go.sum"))
	os.WriteFile(filepath.Join(dir, "go.sum"), gs, 0o644)

	bin := filepath.Join(dir, "test.bin")
	os.Remove(bin)
	cmd := exec.Command("go", "test", "-c", "-vet=off", "-modfile="+filepath.Join(dir, "go.mod"), "-overlay="+filepath.Join(dir, "overlay.json"), "-o", bin, pkg)
	cmd.Dir = repoDir
	cmd.Env = goEnv()
	out, err = cmd.CombinedOutput()
	if err != nil {
		die2("build failed (instrumented tree does not compile): %v\n%s", err, out)
	}
	if _, err := os.Stat(bin); err != nil {
		die2("build produced no binary: %s", out)
	}
	return bin, report
}

func loadKnown() []KnownFinding {
	var l []KnownFinding
	b, err := os.ReadFile(filepath.Join(verifDir, "known_findings.json"))
	if err != nil {
		return nil
	}
	if err := json.Unmarshal(b, &l); err != nil {
		die2("known_findings.json: %v", err)
	}
	return l
}

type workerResult struct {
	sum     *Summary
	err     string
	lastRun int
	out     string
}

func runWorker(bin string, spec *PropSpec, part Part, tier string, t Tier, seed uint64, from, to int, dir string, idx int, knownPath string) workerResult {
	outPath := filepath.Join(dir, fmt.Sprintf("sum-%d.json", idx))
	os.Remove(outPath)
	cmd := exec.Command(bin, "-test.run", "^TestVerif$", "-test.timeout", "0", "-test.count", "1")
	cmd.Dir = filepath.Join(repoDir, part.Pkg)
	env := append(os.Environ(),
		"VERIF_MODE=search", "VERIF_SCENARIO="+part.Scenario, "VERIF_PROPERTY="+spec.ID, "VERIF_TIER="+tier,
		"VERIF_SEED="+strconv.FormatUint(seed, 10), "VERIF_FROM="+strconv.Itoa(from), "VERIF_TO="+strconv.Itoa(to),
		"VERIF_OUT="+outPath, "VERIF_REPLAY_DIR="+filepath.Join(verifDir, "replays"), "VERIF_WALL_S="+strconv.Itoa(t.WallS),
		"VERIF_SHRINK_S="+strconv.Itoa(t.ShrinkS), "VERIF_WATCHDOG_S="+strconv.Itoa(t.Watch), "VERIF_KNOWN="+knownPath,
		"VERIF_SCRATCH="+filepath.Join(dir, "scratch"), "GOMAXPROCS=2", "VERIF_DIR="+verifDir)
	for k, v := range spec.Env {
		env = append(env, k+"="+v)
	}
	cmd.Env = env
	var buf bytes.Buffer
	cmd.Stdout = &buf
	cmd.Stderr = &buf
	err := cmd.Run()
	res := workerResult{lastRun: -1}
	out := buf.String()
	sc := bufio.NewScanner(strings.NewReader(out))
	sc.Buffer(make([]byte, 1<<20), 1<<26)
	for sc.Scan() {
		l := sc.Text()
		if strings.HasPrefix(l, "BEGIN ") {
			res.lastRun, _ = strconv.Atoi(strings.TrimPrefix(l, "BEGIN "))
		}
	}
	if len(out) > 20000 {
		out = out[len(out)-20000:]
	}
	res.out = out
	if err != nil {
		res.err = fmt.Sprintf("worker %d exited: %v", idx, err)
		// a checkpointed summary may exist
		if b, rerr := os.ReadFile(outPath); rerr == nil {
			var s Summary
			if json.Unmarshal(b, &s) == nil {
				res.sum = &s
			}
		}
		return res
	}
	b, rerr := os.ReadFile(outPath)
	if rerr != nil {
		res.err = fmt.Sprintf("worker %d wrote no summary: %v", idx, rerr)
		return res
	}
	var s Summary
	if jerr := json.Unmarshal(b, &s); jerr != nil {
		res.err = fmt.Sprintf("worker %d summary unreadable: %v", idx, jerr)
		return res
	}
	res.sum = &s
	return res
}

// crashSignature extracts a stable description of a process death from the worker's output.
func crashSignature(out string) string {
	lines := strings.Split(out, "\n")
	kind := ""
	for _, l := range lines {
		l = strings.TrimSpace(l)
		if strings.HasPrefix(l, "fatal error: ") || strings.HasPrefix(l, "runtime: out of memory") {
			kind = l
			break
		}
		if strings.HasPrefix(l, "panic: ") && kind == "" {
			kind = l
			if len(kind) > 80 {
				kind = kind[:80]
			}
		}
		if strings.HasPrefix(l, "WATCHDOG ") {
			return "no termination within the wall-clock watchdog"
		}
	}
	if kind == "" {
		return ""
	}
	if strings.Contains(kind, "stack overflow") || strings.Contains(kind, "stack exceeds") {
		kind = "fatal error: stack overflow"
	}
	top := ""
	for i, l := range lines {
		if strings.Contains(l, "/repo/") && !strings.Contains(l, "zz_verif") && i > 0 {
			fn := strings.TrimSpace(lines[i-1])
			if j := strings.LastIndex(fn, "("); j > 0 {
				fn = fn[:j]
			}
			if !strings.HasPrefix(fn, "dsim") && fn != "" {
				top = fn
				break
			}
		}
	}
	return "process crash: " + kind + " in " + top
}

// runWorkerResilient runs a range of runs; when the worker process dies the death is attributed to
// the run it was executing, that run is re-executed alone in a fresh process, and the rest of the
// range continues in a new process. A death that reproduces is a violation (replayed from its seed).
func runWorkerResilient(bin string, spec *PropSpec, part Part, tier string, t Tier, seed uint64, from, to int, dir string, idx int, knownPath string, crashes *[]ViolationEntry, problems *[]string, mu *sync.Mutex) []workerResult {
	var out []workerResult
	for attempt := 0; from < to && attempt < 8; attempt++ {
		r := runWorker(bin, spec, part, tier, t, seed, from, to, dir, idx*100+attempt, knownPath)
		if r.err == "" {
			out = append(out, r)
			return out
		}
		k := r.lastRun
		if k < from {
			mu.Lock()
			*problems = append(*problems, fmt.Sprintf("%s before any run started\n%s", r.err, tail(r.out, 40)))
			mu.Unlock()
			return out
		}
		if r.sum != nil {
			r.sum.Violations = nil // violations of a dead worker are rediscovered by the re-run below if they matter
			out = append(out, workerResult{sum: r.sum})
		}
		sig := crashSignature(r.out)
		// re-execute run k alone
		r2 := runWorker(bin, spec, part, tier, t, seed, k, k+1, dir, idx*100+50+attempt, knownPath)
		sig2 := crashSignature(r2.out)
		switch {
		case r2.err != "" && sig != "" && sig == sig2:
			rs := mixSeed(seed, uint64(k))
			os.MkdirAll(filepath.Join(verifDir, "replays"), 0o755)
			path := filepath.Join(verifDir, "replays", fmt.Sprintf("%s-crash-seed%d.json", spec.ID, rs))
			rf := map[string]any{"property": spec.ID, "scenario": part.Scenario, "tier": tier, "seed": rs, "from_seed": true, "tape": []int{},
				"expect": map[string]any{"class": "crash", "signature": sig, "detail": tail(r2.out, 60)}}
			b, _ := json.MarshalIndent(rf, "", " ")
			os.WriteFile(path, b, 0o644)
			mu.Lock()
			*crashes = append(*crashes, ViolationEntry{Run: k, Seed: rs, Violation: Violation{Class: "crash", Signature: sig, Detail: tail(r2.out, 60)}, Replay: path})
			mu.Unlock()
		case r2.err == "":
			mu.Lock()
			*problems = append(*problems, fmt.Sprintf("%s (run %d) but the run passes alone: not reproducible\n%s", r.err, k, tail(r.out, 30)))
			if strings.Contains(r.err, "killed") {
				atomic.AddInt64(&resourceDeaths, 1)
			}
			mu.Unlock()
			out = append(out, r2)
		default:
			mu.Lock()
			*problems = append(*problems, fmt.Sprintf("%s (run %d); alone it dies differently (%q vs %q)\n%s", r.err, k, sig, sig2, tail(r2.out, 30)))
			mu.Unlock()
		}
		from = k + 1
	}
	return out
}

// mixSeed mirrors dsim.Mix (run seed from base seed and run index).
func mixSeed(a, b uint64) uint64 {
	s := (a ^ (b+1)*0xD6E8FEB86659FD93) * 0x9E3779B97F4A7C15
	s += 0x632BE59BD9B4E019
	next := func() uint64 {
		s += 0x9E3779B97F4A7C15
		z := s
		z = (z ^ (z >> 30)) * 0xBF58476D1CE4E5B9
		z = (z ^ (z >> 27)) * 0x94D049BB133111EB
		return z ^ (z >> 31)
	}
	next()
	return next()
}

func replayOnce(bin string, spec *PropSpec, part Part, file string, dir string) (int, string) {
	cmd := exec.Command(bin, "-test.run", "^TestVerif$", "-test.timeout", "0", "-test.count", "1")
	cmd.Dir = filepath.Join(repoDir, part.Pkg)
	env := append(os.Environ(), "VERIF_MODE=replay", "VERIF_SCENARIO="+part.Scenario, "VERIF_REPLAY="+file,
		"VERIF_SCRATCH="+filepath.Join(dir, "scratch"), "GOMAXPROCS=2", "VERIF_DIR="+verifDir)
	for k, v := range spec.Env {
		env = append(env, k+"="+v)
	}
	cmd.Env = env
	out, err := cmd.CombinedOutput()
	code := 0
	if err != nil {
		if ee, ok := err.(*exec.ExitError); ok {
			code = ee.ExitCode()
		} else {
			code = 2
		}
	}
	return code, string(out)
}

var resourceDeaths int64

func numWorkers() int {
	if v := os.Getenv("VERIF_WORKERS"); v != "" {
		if n, err := strconv.Atoi(v); err == nil && n > 0 {
			return n
		}
	}
	return 16
}

func runCheck(spec *PropSpec, tier string) int {
	t0 := time.Now()
	t := spec.Quick
	if tier == "thorough" {
		t = spec.Thorough
	}
	if t.Watch == 0 {
		t.Watch = 120
	}
	if t.ShrinkS == 0 {
		t.ShrinkS = 30
	}
	if v := os.Getenv("VERIF_RUNS"); v != "" {
		if n, err := strconv.Atoi(v); err == nil {
			t.Runs = n
		}
	}
	if v := os.Getenv("VERIF_WALL"); v != "" { // wall-clock budget of the search in seconds
		if n, err := strconv.Atoi(v); err == nil && n > 0 {
			t.WallS = n
		}
	}
	if v := os.Getenv("VERIF_WALL_SCALE"); v != "" { // e.g. 0.33: a third of the tier's budget
		if f, err := strconv.ParseFloat(v, 64); err == nil && f > 0 {
			t.WallS = int(float64(t.WallS)*f) + 1
		}
	}
	seed := uint64(1)
	if v := os.Getenv("VERIF_SEED"); v != "" {
		if n, err := strconv.ParseUint(v, 10, 64); err == nil {
			seed = n
		}
	}
	dir := filepath.Join(verifDir, ".build", spec.ID)
	os.MkdirAll(dir, 0o755)
	// one run of a check at a time: two runs share the build directory and would delete each
	// other's scratch files and binary
	if lf, err := os.OpenFile(filepath.Join(dir, "lock"), os.O_CREATE|os.O_RDWR, 0o644); err == nil {
		if err := syscall.Flock(int(lf.Fd()), syscall.LOCK_EX|syscall.LOCK_NB); err != nil {
			fmt.Printf("NOTE another run of %s is in progress; waiting for it\n", spec.ID)
			syscall.Flock(int(lf.Fd()), syscall.LOCK_EX)
		}
		defer lf.Close()
	}
	os.RemoveAll(filepath.Join(dir, "scratch"))
	os.MkdirAll(filepath.Join(dir, "scratch"), 0o755)
	defer os.RemoveAll(filepath.Join(dir, "scratch"))
	// replay files of earlier runs of this check are stale (the tree may have changed)
	if old, _ := filepath.Glob(filepath.Join(verifDir, "replays", spec.ID+"-*.json")); len(old) > 0 {
		for _, f := range old {
			os.Remove(f)
		}
	}
	parts := []Part{{Pkg: spec.Pkg, Scenario: spec.Scenario, Share: 1}}
	for _, m := range spec.More {
		parts[0].Share -= m.Share
		parts = append(parts, m)
	}
	bins := make([]string, len(parts))
	var report map[string]any
	for i, p := range parts {
		pdir := dir
		if i > 0 {
			pdir = filepath.Join(dir, fmt.Sprintf("part%d", i))
		}
		var rep map[string]any
		bins[i], rep = buildPkg(spec, p.Pkg, pdir)
		if i == 0 {
			report = rep
		}
	}
	buildS := time.Since(t0).Seconds()

	known := loadKnown()
	var knownSigs []string
	for _, k := range known {
		if k.Property == spec.ID && k.Status == "known" {
			knownSigs = append(knownSigs, k.Signature)
		}
	}
	kb, _ := json.Marshal(knownSigs)
	knownPath := filepath.Join(dir, "known.json")
	os.WriteFile(knownPath, kb, 0o644)

	nw := numWorkers()
	type job struct {
		part     int
		from, to int
	}
	var jobs []job
	start := 0
	for i, p := range parts {
		n := int(float64(t.Runs)*p.Share + 0.5)
		if n < 1 {
			n = 1
		}
		// more jobs than workers: parts with slow runs then spread over all workers
		chunks := nw
		if len(parts) > 1 {
			chunks = 2 * nw
		}
		if chunks > n {
			chunks = n
		}
		per := (n + chunks - 1) / chunks
		for c := 0; c < chunks; c++ {
			from, to := start+c*per, start+(c+1)*per
			if to > start+n {
				to = start + n
			}
			if from < to {
				jobs = append(jobs, job{i, from, to})
			}
		}
		start += n
	}
	var results []workerResult
	var crashes []ViolationEntry
	var crashProblems []string
	var rmu sync.Mutex
	sem := make(chan struct{}, nw)
	var wg sync.WaitGroup
	for w, j := range jobs {
		wg.Add(1)
		go func(w int, j job) {
			defer wg.Done()
			sem <- struct{}{}
			defer func() { <-sem }()
			rs := runWorkerResilient(bins[j.part], spec, parts[j.part], tier, t, seed, j.from, j.to, dir, w, knownPath, &crashes, &crashProblems, &rmu)
			rmu.Lock()
			results = append(results, rs...)
			rmu.Unlock()
		}(w, j)
	}
	wg.Wait()
	partOf := func(scenario string) int {
		for i, p := range parts {
			if p.Scenario == scenario {
				return i
			}
		}
		return 0
	}

	agg := Summary{Inconclusive: map[string]int{}, Faults: map[string]int{}, Probes: map[string]int{}, Strategies: map[string]int{}, KnownHits: map[string]int{}, KnobOnly: map[string]int{}}
	distinct := map[uint64]bool{}
	sigs := map[uint64]bool{}
	var harnessProblems []string
	harnessProblems = append(harnessProblems, crashProblems...)
	agg.Violations = append(agg.Violations, crashes...)
	for w, r := range results {
		if r.sum == nil && r.err == "" {
			continue
		}
		if r.err != "" {
			harnessProblems = append(harnessProblems, fmt.Sprintf("%s (last run index %d)\n%s", r.err, r.lastRun, tail(r.out, 60)))
			continue
		}
		s := r.sum
		agg.Runs += s.Runs
		agg.Steps += s.Steps
		agg.Switches += s.Switches
		agg.SimTimeNs += s.SimTimeNs
		agg.DetHash ^= s.DetHash * uint64(2*w+1)
		for k, v := range s.Inconclusive {
			agg.Inconclusive[k] += v
		}
		for k, v := range s.Faults {
			agg.Faults[k] += v
		}
		for k, v := range s.Probes {
			agg.Probes[k] += v
		}
		for k, v := range s.Strategies {
			agg.Strategies[k] += v
		}
		for k, v := range s.KnownHits {
			agg.KnownHits[k] += v
		}
		for k, v := range s.KnobOnly {
			agg.KnobOnly[k] += v
		}
		for _, h := range s.Distinct {
			distinct[h] = true
		}
		for _, h := range s.SchedSigs {
			sigs[h] = true
		}
		if len(agg.Samples) < 3 {
			agg.Samples = append(agg.Samples, s.Samples...)
		}
		agg.Violations = append(agg.Violations, s.Violations...)
		agg.HarnessErrs = append(agg.HarnessErrs, s.HarnessErrs...)
	}
	if len(agg.Samples) > 3 {
		agg.Samples = agg.Samples[:3]
	}
	searchS := time.Since(t0).Seconds() - buildS

	// confirm violations in a fresh process; apply the known list
	exit := 0
	seenSig := map[string]bool{}
	var lines []string
	confirmed := 0
	for _, v := range agg.Violations {
		key := v.Violation.Class + "|" + v.Violation.Signature
		if seenSig[key] {
			continue
		}
		seenSig[key] = true
		pi := partOf(replayScenario(v.Replay))
		code, out := replayOnce(bins[pi], spec, parts[pi], v.Replay, dir)
		if v.Violation.Class == "crash" && code != 0 && code != 1 && crashSignature(out) == v.Violation.Signature {
			code = 1 // the fresh process died the same way
		}
		switch code {
		case 1:
			confirmed++
			lines = append(lines, fmt.Sprintf("VIOLATION property=%s replay=%s", spec.ID, v.Replay))
			lines = append(lines, fmt.Sprintf("  class=%s signature=%q seed=%d tape_len=%d", v.Violation.Class, v.Violation.Signature, v.Seed, v.TapeLen))
			lines = append(lines, indent(firstLines(v.Violation.Detail, 25)))
			exit = 1
		default:
			harnessProblems = append(harnessProblems, fmt.Sprintf("violation %q (seed %d) did not reproduce in a fresh process (replay exit %d)\n%s", v.Violation.Signature, v.Seed, code, tail(out, 40)))
		}
	}
	for _, k := range known {
		if k.Property != spec.ID || k.Status != "known" {
			continue
		}
		fmt.Printf("KNOWN-FINDING: property=%s %s (hits this run: %d)\n", spec.ID, k.Signature, agg.KnownHits[k.Signature])
	}
	for _, l := range lines {
		fmt.Println(l)
	}
	if len(agg.HarnessErrs) > 0 {
		for _, e := range agg.HarnessErrs {
			harnessProblems = append(harnessProblems, e)
		}
	}
	if len(harnessProblems) > 0 && exit == 0 {
		exit = 2
	}
	for _, p := range harnessProblems {
		fmt.Printf("CHECK-ERROR %s\n", p)
	}

	// evidence
	wall := time.Since(t0).Seconds()
	var faultKinds []string
	for k := range agg.Faults {
		faultKinds = append(faultKinds, k)
	}
	sort.Strings(faultKinds)
	var unreached []string
	for _, p := range expectedProbes[spec.ID] {
		if agg.Probes[p] == 0 {
			unreached = append(unreached, p)
		}
	}
	samples := []any{}
	for _, s := range agg.Samples {
		delete(s, "trace_tail")
		samples = append(samples, s)
	}
	if len(samples) == 0 {
		samples = append(samples, map[string]any{"note": "no non-trivial run completed"})
	}
	rph := 0.0
	if searchS > 0 {
		rph = float64(agg.Runs) / searchS * 3600
	}
	ev := map[string]any{
		"property_id": spec.ID,
		"tier":        tier,
		"seed":        seed,
		"level":       spec.Level,
		"wall_s":      wall,
		"violations":  confirmed,
		"assumptions": spec.Assumptions,
		"coverage": map[string]any{
			"evaluations":                  agg.Runs,
			"distinct_nontrivial":          len(distinct),
			"rule":                         spec.Rule,
			"samples":                      samples,
			"exhaustive":                   false,
			"runs_per_hour":                rph,
			"seeds":                        fmt.Sprintf("mix(VERIF_SEED=%d, run index 0..%d)", seed, t.Runs-1),
			"sim_time_s":                   float64(agg.SimTimeNs) / 1e9,
			"steps":                        agg.Steps,
			"context_switches":             agg.Switches,
			"faults_fired":                 agg.Faults,
			"probes":                       agg.Probes,
			"unreached_probes":             unreached,
			"distinct_schedule_signatures": len(sigs),
			"strategies":                   agg.Strategies,
			"inconclusive":                 agg.Inconclusive,
			"known_finding_hits":           agg.KnownHits,
			"knob_only":                    agg.KnobOnly,
			"instrumentation":              report,
			"components":                   map[string]any{"real": spec.Real, "stub": spec.Stub},
			"build_s":                      buildS,
			"search_s":                     searchS,
			"workers":                      nw,
			"parts":                        parts,
			"determinism_fold":             agg.DetHash,
		},
	}
	os.MkdirAll(filepath.Join(verifDir, "evidence"), 0o755)
	eb, _ := json.MarshalIndent(ev, "", " ")
	if err := os.WriteFile(filepath.Join(verifDir, "evidence", spec.ID+".json"), eb, 0o644); err != nil {
		die2("write evidence: %v", err)
	}
	fmt.Printf("check %s tier=%s seed=%d: runs=%d distinct_nontrivial=%d schedule_signatures=%d violations=%d wall=%.1fs (build %.1fs) exit=%d\n",
		spec.ID, tier, seed, agg.Runs, len(distinct), len(sigs), confirmed, wall, buildS, exit)
	return exit
}

func replayCmd(file string) int {
	b, err := os.ReadFile(file)
	if err != nil {
		die2("%v", err)
	}
	var rf struct {
		Property string `json:"property"`
	}
	if err := json.Unmarshal(b, &rf); err != nil {
		die2("%v", err)
	}
	spec := findProp(rf.Property)
	if spec == nil {
		die2("replay file names unknown property %q", rf.Property)
	}
	dir := filepath.Join(verifDir, ".build", spec.ID)
	os.MkdirAll(filepath.Join(dir, "scratch"), 0o755)
	abs, _ := filepath.Abs(file)
	part := Part{Pkg: spec.Pkg, Scenario: spec.Scenario}
	pdir := dir
	sc := replayScenario(abs)
	for i, m := range spec.More {
		if m.Scenario == sc {
			part = m
			pdir = filepath.Join(dir, fmt.Sprintf("part%d", i+1))
		}
	}
	bin, _ := buildPkg(spec, part.Pkg, pdir)
	code, out := replayOnce(bin, spec, part, abs, dir)
	fmt.Print(out)
	var exp struct {
		Expect Violation `json:"expect"`
	}
	json.Unmarshal(b, &exp)
	if exp.Expect.Class == "crash" && code != 0 && code != 1 && crashSignature(out) == exp.Expect.Signature {
		fmt.Printf("REPRODUCED class=crash signature=%q\n", exp.Expect.Signature)
		code = 1
	}
	if code == 1 {
		fmt.Printf("VIOLATION property=%s replay=%s\n", spec.ID, abs)
		return 1
	}
	if code == 0 {
		return 0
	}
	return 2
}

// selftestDeterminism: the same seeds in separate processes under GOMAXPROCS 1, 4 and 16 must fold
// to the same trace hash.
func selftestDeterminism(id string) int {
	spec := findProp(id)
	if spec == nil {
		die2("unknown property %s", id)
	}
	dir := filepath.Join(verifDir, ".build", spec.ID)
	os.MkdirAll(filepath.Join(dir, "scratch"), 0o755)
	parts := append([]Part{{Pkg: spec.Pkg, Scenario: spec.Scenario}}, spec.More...)
	rc := 0
	for i, part := range parts {
		pdir := dir
		if i > 0 {
			pdir = filepath.Join(dir, fmt.Sprintf("part%d", i))
		}
		bin, _ := buildPkg(spec, part.Pkg, pdir)
		fmt.Printf("part %s %s\n", part.Pkg, part.Scenario)
		if r := selftestPart(spec, part, bin, dir); r != 0 {
			rc = r
		}
	}
	if rc == 0 {
		fmt.Println("deterministic")
	}
	return rc
}

func selftestPart(spec *PropSpec, part Part, bin string, dir string) int {
	n := 30
	if v := os.Getenv("VERIF_RUNS"); v != "" {
		n, _ = strconv.Atoi(v)
	}
	type res struct {
		procs string
		hash  string
	}
	var all []res
	var mu sync.Mutex
	var wg sync.WaitGroup
	for _, procs := range []string{"1", "4", "16", "1", "4", "16"} {
		wg.Add(1)
		go func(procs string, k int) {
			defer wg.Done()
			cmd := exec.Command(bin, "-test.run", "^TestVerif$", "-test.timeout", "0")
			cmd.Dir = filepath.Join(repoDir, part.Pkg)
			cmd.Env = append(os.Environ(), "VERIF_MODE=search", "VERIF_SCENARIO="+part.Scenario, "VERIF_PROPERTY="+spec.ID, "VERIF_TIER=quick",
				"VERIF_SEED=7", "VERIF_FROM=0", "VERIF_TO="+strconv.Itoa(n), "VERIF_MAX_VIOL=1000000", "VERIF_SHRINK_S=0",
				"VERIF_SCRATCH="+filepath.Join(dir, "scratch"), "GOMAXPROCS="+procs, "VERIF_DIR="+verifDir, "VERIF_KNOWN=/nonexistent")
			for k, v := range spec.Env {
				cmd.Env = append(cmd.Env, k+"="+v)
			}
			out, _ := cmd.CombinedOutput()
			h := "?"
			for _, l := range strings.Split(string(out), "\n") {
				if strings.HasPrefix(l, "DONE ") {
					h = l
				}
			}
			mu.Lock()
			all = append(all, res{procs, h})
			mu.Unlock()
		}(procs, len(all))
	}
	wg.Wait()
	ok := true
	for _, r := range all {
		fmt.Printf("GOMAXPROCS=%s %s\n", r.procs, r.hash)
		if r.hash != all[0].hash || r.hash == "?" {
			ok = false
		}
	}
	if !ok {
		fmt.Println("NONDETERMINISTIC")
		return 2
	}
	return 0
}

func replayScenario(file string) string {
	b, err := os.ReadFile(file)
	if err != nil {
		return ""
	}
	var rf struct {
		Scenario string `json:"scenario"`
	}
	json.Unmarshal(b, &rf)
	return rf.Scenario
}

func tail(s string, n int) string {
	l := strings.Split(strings.TrimRight(s, "\n"), "\n")
	if len(l) > n {
		l = l[len(l)-n:]
	}
	return strings.Join(l, "\n")
}

func firstLines(s string, n int) string {
	l := strings.Split(s, "\n")
	if len(l) > n {
		l = append(l[:n], "...")
	}
	return strings.Join(l, "\n")
}

func indent(s string) string { return "  " + strings.ReplaceAll(s, "\n", "\n  ") }
