// simrewrite instruments Go source files of /repo's working tree for the dsim simulator and
// emits a `go build -overlay` file. Nothing under /repo is written.
//
// usage: simrewrite -repo /repo -out DIR -cfg rewrite.json
package main

import (
	"bytes"
	"encoding/json"
	"flag"
	"fmt"
	"go/ast"
	"go/printer"
	"go/token"
	"go/types"
	"os"
	"path/filepath"
	"sort"
	"strconv"
	"strings"

	"golang.org/x/tools/go/ast/astutil"
	"golang.org/x/tools/go/packages"
)

type KnobSpec struct {
	File string `json:"file"` // path relative to repo
	// Kind "const": `const Name = <int literal>` (or inside a const/var block) becomes
	// `var Name = dsim.Knob("<knob>", <literal>)`.
	// Kind "literal": the N-th (0-based) occurrence of integer literal Value inside function Func
	// becomes dsim.Knob("<knob>", Value).
	Kind  string `json:"kind"`
	Name  string `json:"name,omitempty"`
	Func  string `json:"func,omitempty"`
	Value string `json:"value,omitempty"`
	Nth   int    `json:"nth,omitempty"`
	Knob  string `json:"knob"`
}

type Config struct {
	Packages  []string            `json:"packages"`             // go/packages patterns, relative to repo
	MainFiles []string            `json:"main_files,omitempty"` // globs (base names) of files of the root package to instrument; empty = all
	SimOS     []string            `json:"simos_packages,omitempty"`
	StmtYield []string            `json:"stmt_yield_files,omitempty"`     // repo-relative files that get statement-level yields in goroutine bodies
	StmtAll   []string            `json:"stmt_yield_all_files,omitempty"` // repo-relative files that get statement-level yields in every function
	MapGuard  []string            `json:"map_guard_files,omitempty"`      // repo-relative files whose map reads, writes and ranges announce themselves (dsim/mapguard.go)
	Knobs     []KnobSpec          `json:"knobs,omitempty"`
	Overrides map[string]string   `json:"overrides,omitempty"`
	Extra     map[string]string   `json:"extra_files,omitempty"` // overlay additions: repo-relative target -> source path
	SelMap    map[string][]string `json:"-"`
}

type Report struct {
	Files     int            `json:"files"`
	Rewrites  map[string]int `json:"rewrites"`
	Gaps      []string       `json:"gaps"`
	KnobsHit  []string       `json:"knobs_applied"`
	KnobsMiss []string       `json:"knobs_missing"`
}

var selMap = map[string]map[string]string{
	"sync":                       {"Mutex": "simsync", "RWMutex": "simsync", "WaitGroup": "simsync", "Once": "simsync", "Pool": "simsync"},
	"sync/atomic":                {"Bool": "simatomic", "Int32": "simatomic", "Int64": "simatomic", "Uint32": "simatomic", "Uint64": "simatomic"},
	"time":                       {"Now": "simtime", "Since": "simtime", "Until": "simtime", "Sleep": "simtime", "After": "simtime", "Tick": "simtime", "NewTimer": "simtime", "NewTicker": "simtime", "AfterFunc": "simtime", "Timer": "simtime", "Ticker": "simtime"},
	"context":                    {"WithCancel": "simctx", "WithTimeout": "simctx", "WithDeadline": "simctx"},
	"golang.org/x/sync/errgroup": {"Group": "simerrgroup", "WithContext": "simerrgroup"},
	// not used by the pinned tree; a change that introduces it must not park the baton on a real WaitGroup
	"golang.org/x/sync/singleflight": {"Group": "simsingleflight", "Result": "simsingleflight"},
}

// selectors of those packages that read the clock / block and are NOT modelled: reported as gaps
var unmodelled = map[string]map[string]bool{
	"sync":        {"Cond": true, "NewCond": true, "Map": true},
	"sync/atomic": {"AddInt32": true, "AddInt64": true, "AddUint32": true, "AddUint64": true, "LoadInt32": true, "LoadInt64": true, "LoadUint32": true, "LoadUint64": true, "StoreInt32": true, "StoreInt64": true, "StoreUint32": true, "StoreUint64": true, "CompareAndSwapInt32": true, "CompareAndSwapInt64": true, "Value": true, "Pointer": true},
}

var simosSel = map[string]bool{"File": true, "Create": true, "Open": true, "OpenFile": true, "CreateTemp": true, "MkdirTemp": true, "ReadFile": true, "WriteFile": true}

func main() {
	repo := flag.String("repo", "/repo", "repository root")
	out := flag.String("out", "", "output directory")
	cfgPath := flag.String("cfg", "", "config json")
	flag.Parse()
	var cfg Config
	b, err := os.ReadFile(*cfgPath)
	if err != nil {
		fatal(err)
	}
	if err := json.Unmarshal(b, &cfg); err != nil {
		fatal(err)
	}
	if err := os.MkdirAll(filepath.Join(*out, "src"), 0o755); err != nil {
		fatal(err)
	}
	rep := &Report{Rewrites: map[string]int{}}
	overlay := map[string]string{}

	pcfg := &packages.Config{
		Mode: packages.NeedName | packages.NeedFiles | packages.NeedCompiledGoFiles | packages.NeedSyntax | packages.NeedTypes | packages.NeedTypesInfo | packages.NeedImports | packages.NeedDeps,
		Dir:  *repo,
		Env:  append(os.Environ(), "GOFLAGS=-mod=mod", "GOPROXY=off", "GOSUMDB=off"),
	}
	pkgs, err := packages.Load(pcfg, cfg.Packages...)
	if err != nil {
		fatal(err)
	}
	nerr := 0
	for _, p := range pkgs {
		for _, e := range p.Errors {
			fmt.Fprintf(os.Stderr, "load error: %s: %v\n", p.PkgPath, e)
			nerr++
		}
	}
	if nerr > 0 {
		fatal(fmt.Errorf("%d load errors (the tree does not type-check)", nerr))
	}
	simos := map[string]bool{}
	for _, p := range cfg.SimOS {
		simos[p] = true
	}
	stmtYield := map[string]bool{}
	for _, f := range cfg.StmtYield {
		stmtYield[filepath.Join(*repo, f)] = true
	}
	mapGuard := map[string]bool{}
	for _, f := range cfg.MapGuard {
		mapGuard[filepath.Join(*repo, f)] = true
	}
	stmtAll := map[string]bool{}
	for _, f := range cfg.StmtAll {
		stmtAll[filepath.Join(*repo, f)] = true
	}
	knobsByFile := map[string][]KnobSpec{}
	knobsByDir := map[string][]KnobSpec{}
	for _, k := range cfg.Knobs {
		p := filepath.Join(*repo, k.File)
		if k.Kind == "const" {
			knobsByDir[filepath.Dir(p)] = append(knobsByDir[filepath.Dir(p)], k)
		} else {
			knobsByFile[p] = append(knobsByFile[p], k)
		}
	}
	sort.Slice(pkgs, func(i, j int) bool { return pkgs[i].PkgPath < pkgs[j].PkgPath })
	for _, p := range pkgs {
		isRoot := filepath.Clean(filepath.Dir(firstFile(p))) == filepath.Clean(*repo)
		for i, f := range p.Syntax {
			path := p.CompiledGoFiles[i]
			if !strings.HasPrefix(path, *repo) || strings.HasSuffix(path, "_test.go") {
				continue
			}
			if isRoot && len(cfg.MainFiles) > 0 && !matchAny(cfg.MainFiles, filepath.Base(path)) {
				continue
			}
			relDir := strings.TrimPrefix(strings.TrimPrefix(filepath.Dir(path), filepath.Clean(*repo)), "/")
			rw := &rewriter{pkg: p, file: f, fset: p.Fset, rep: rep, path: path, rel: strings.TrimPrefix(path, *repo+"/"), simos: simos[relDir] || simos["*"],
				stmtYield: stmtYield[path], stmtAll: stmtAll[path], mapGuard: mapGuard[path], knobs: append(append([]KnobSpec(nil), knobsByFile[path]...), knobsByDir[filepath.Dir(path)]...), overrides: cfg.Overrides}
			changed := rw.run()
			if !changed {
				continue
			}
			var buf bytes.Buffer
			if err := (&printer.Config{Mode: printer.UseSpaces | printer.TabIndent, Tabwidth: 8}).Fprint(&buf, p.Fset, f); err != nil {
				rep.Gaps = append(rep.Gaps, fmt.Sprintf("%s: print: %v", rw.rel, err))
				continue
			}
			dst := filepath.Join(*out, "src", strings.ReplaceAll(rw.rel, "/", "__"))
			if err := os.WriteFile(dst, buf.Bytes(), 0o644); err != nil {
				fatal(err)
			}
			overlay[path] = dst
			rep.Files++
		}
	}
	for _, k := range cfg.Knobs {
		id := k.File + ":" + k.Knob
		found := false
		for _, h := range rep.KnobsHit {
			if h == id {
				found = true
			}
		}
		if !found {
			rep.KnobsMiss = append(rep.KnobsMiss, id)
		}
	}
	for target, src := range cfg.Extra {
		overlay[filepath.Join(*repo, target)] = src
	}
	ob, _ := json.MarshalIndent(map[string]any{"Replace": overlay}, "", " ")
	if err := os.WriteFile(filepath.Join(*out, "overlay.json"), ob, 0o644); err != nil {
		fatal(err)
	}
	sort.Strings(rep.Gaps)
	rb, _ := json.MarshalIndent(rep, "", " ")
	os.WriteFile(filepath.Join(*out, "report.json"), rb, 0o644)
	fmt.Printf("simrewrite: %d files rewritten, %d gaps\n", rep.Files, len(rep.Gaps))
}

func firstFile(p *packages.Package) string {
	if len(p.CompiledGoFiles) > 0 {
		return p.CompiledGoFiles[0]
	}
	return ""
}

func matchAny(globs []string, name string) bool {
	for _, g := range globs {
		if ok, _ := filepath.Match(g, name); ok {
			return true
		}
	}
	return false
}

func fatal(err error) {
	fmt.Fprintf(os.Stderr, "simrewrite: %v\n", err)
	os.Exit(2)
}

// ---------------------------------------------------------------------------------------

type rewriter struct {
	pkg       *packages.Package
	file      *ast.File
	fset      *token.FileSet
	rep       *Report
	path, rel string
	stmtYield bool
	stmtAll   bool
	mapGuard  bool
	mapLHS    map[ast.Node]bool // index expressions that are written (assignment targets, ++/--)
	knobs     []KnobSpec
	overrides map[string]string
	simos     bool
	need      map[string]bool // sim packages to import
	changed   bool
	skip      map[ast.Node]bool
	tmp       int
}

func (r *rewriter) count(kind string) { r.rep.Rewrites[kind]++; r.changed = true }
func (r *rewriter) gap(n ast.Node, msg string) {
	r.rep.Gaps = append(r.rep.Gaps, fmt.Sprintf("%s:%d: %s", r.rel, r.fset.Position(n.Pos()).Line, msg))
}
func (r *rewriter) use(pkg string) string { r.need[pkg] = true; return "dsim_" + pkg }
func (r *rewriter) dsim(fn string) ast.Expr {
	r.need["dsim"] = true
	return &ast.SelectorExpr{X: ast.NewIdent("dsim_dsim"), Sel: ast.NewIdent(fn)}
}
func (r *rewriter) call(fn string, args ...ast.Expr) *ast.CallExpr {
	return &ast.CallExpr{Fun: r.dsim(fn), Args: args}
}
func (r *rewriter) fresh(prefix string) *ast.Ident {
	r.tmp++
	return ast.NewIdent(fmt.Sprintf("_dsim_%s%d", prefix, r.tmp))
}
func (r *rewriter) typeOf(e ast.Expr) types.Type {
	if tv, ok := r.pkg.TypesInfo.Types[e]; ok {
		return tv.Type
	}
	if id, ok := e.(*ast.Ident); ok {
		if o := r.pkg.TypesInfo.ObjectOf(id); o != nil {
			return o.Type()
		}
	}
	return nil
}
func (r *rewriter) isChan(e ast.Expr) bool {
	t := r.typeOf(e)
	if t == nil {
		return false
	}
	_, ok := t.Underlying().(*types.Chan)
	return ok
}
func (r *rewriter) isMap(e ast.Expr) bool {
	t := r.typeOf(e)
	if t == nil {
		return false
	}
	_, ok := t.Underlying().(*types.Map)
	return ok
}
func (r *rewriter) isBuiltin(fun ast.Expr, name string) bool {
	id, ok := fun.(*ast.Ident)
	if !ok || id.Name != name {
		return false
	}
	_, isB := r.pkg.TypesInfo.Uses[id].(*types.Builtin)
	return isB
}
func (r *rewriter) site(n ast.Node) ast.Expr {
	p := r.fset.Position(n.Pos())
	return &ast.BasicLit{Kind: token.STRING, Value: strconv.Quote(fmt.Sprintf("%s:%d", filepath.Base(r.rel), p.Line))}
}

func (r *rewriter) run() bool {
	r.need = map[string]bool{}
	r.skip = map[ast.Node]bool{}
	r.mapLHS = map[ast.Node]bool{}
	info := r.pkg.TypesInfo

	r.applyKnobs()

	// pass 0: function overrides: rename `func Name(` to `func Name__orig(` and let the harness
	// supply Name via an extra file.
	for _, d := range r.file.Decls {
		fd, ok := d.(*ast.FuncDecl)
		if !ok || fd.Recv != nil {
			continue
		}
		key := r.pkg.PkgPath + "." + fd.Name.Name
		if _, ok := r.overrides[key]; ok {
			fd.Name = ast.NewIdent(fd.Name.Name + "__orig")
			r.count("override")
		}
	}

	// pass 1: selectors
	usedPkgs := map[*types.PkgName]int{}
	osRewritten := false
	astutil.Apply(r.file, func(c *astutil.Cursor) bool {
		se, ok := c.Node().(*ast.SelectorExpr)
		if !ok {
			return true
		}
		id, ok := se.X.(*ast.Ident)
		if !ok {
			return true
		}
		pn, ok := info.Uses[id].(*types.PkgName)
		if !ok {
			return true
		}
		ipath := pn.Imported().Path()
		if ipath == "os" && r.simos && simosSel[se.Sel.Name] {
			se.X = ast.NewIdent(r.use("simos"))
			r.count("sel:os." + se.Sel.Name)
			osRewritten = true
			return true
		}
		if m, ok := selMap[ipath]; ok {
			if simpkg, ok := m[se.Sel.Name]; ok {
				se.X = ast.NewIdent(r.use(simpkg))
				r.count("sel:" + ipath + "." + se.Sel.Name)
				return true
			}
		}
		if m, ok := unmodelled[ipath]; ok && m[se.Sel.Name] {
			r.gap(se, "unmodelled "+ipath+"."+se.Sel.Name)
		}
		usedPkgs[pn]++
		return true
	}, nil)

	// pass 2: statements and expressions
	astutil.Apply(r.file, r.pre, r.post)

	if r.stmtAll {
		for _, d := range r.file.Decls {
			if fd, ok := d.(*ast.FuncDecl); ok && fd.Body != nil {
				r.yieldBlock(fd.Body)
			}
		}
	} else if r.stmtYield {
		r.insertYields()
	}

	if !r.changed {
		return false
	}
	// imports: add sim packages, drop imports that are no longer referenced
	for _, imp := range r.file.Imports {
		var pn *types.PkgName
		if imp.Name != nil {
			if o, ok := info.Defs[imp.Name].(*types.PkgName); ok {
				pn = o
			}
		} else if o, ok := info.Implicits[imp].(*types.PkgName); ok {
			pn = o
		}
		if pn == nil {
			continue
		}
		if imp.Name != nil && (imp.Name.Name == "_" || imp.Name.Name == ".") {
			continue
		}
		ipath, _ := strconv.Unquote(imp.Path.Value)
		if _, tracked := selMap[ipath]; (tracked || (ipath == "os" && osRewritten)) && usedPkgs[pn] == 0 {
			// keep it alive without an unused-import error
			imp.Name = ast.NewIdent("_")
		}
	}
	var names []string
	for n := range r.need {
		names = append(names, n)
	}
	sort.Strings(names)
	for _, n := range names {
		p := "dsim/" + n
		if n == "dsim" {
			p = "dsim"
		}
		astutil.AddNamedImport(r.fset, r.file, "dsim_"+n, p)
	}
	return true
}

func (r *rewriter) pre(c *astutil.Cursor) bool {
	switch n := c.Node().(type) {
	case *ast.SelectStmt:
		for _, cl := range n.Body.List {
			cc := cl.(*ast.CommClause)
			switch s := cc.Comm.(type) {
			case *ast.SendStmt:
				r.skip[s] = true
			case *ast.ExprStmt:
				r.skip[ast.Unparen(s.X)] = true
			case *ast.AssignStmt:
				r.skip[ast.Unparen(s.Rhs[0])] = true
				r.skip[s] = true
			}
		}
	case *ast.IncDecStmt:
		if ix, ok := ast.Unparen(n.X).(*ast.IndexExpr); ok {
			r.mapLHS[ix] = true
		}
	case *ast.AssignStmt:
		for _, l := range n.Lhs {
			if ix, ok := ast.Unparen(l).(*ast.IndexExpr); ok {
				r.mapLHS[ix] = true
			}
		}
		// v, ok := <-c  /  v, ok = <-c
		if len(n.Lhs) == 2 && len(n.Rhs) == 1 && !r.skip[n] {
			if u, ok := ast.Unparen(n.Rhs[0]).(*ast.UnaryExpr); ok && u.Op == token.ARROW {
				r.skip[u] = true
				n.Rhs[0] = r.call("Recv2", u.X)
				r.count("recv2")
			}
		}
	case *ast.ValueSpec:
		if len(n.Names) == 2 && len(n.Values) == 1 {
			if u, ok := ast.Unparen(n.Values[0]).(*ast.UnaryExpr); ok && u.Op == token.ARROW {
				r.skip[u] = true
				n.Values[0] = r.call("Recv2", u.X)
				r.count("recv2")
			}
		}
	}
	return true
}

func (r *rewriter) post(c *astutil.Cursor) bool {
	switch n := c.Node().(type) {
	case *ast.UnaryExpr:
		if n.Op == token.ARROW && !r.skip[n] {
			c.Replace(r.call("Recv", n.X))
			r.count("recv")
		}
	case *ast.SendStmt:
		if !r.skip[n] {
			c.Replace(&ast.ExprStmt{X: &ast.CallExpr{Fun: r.call("SendTo", n.Chan), Args: []ast.Expr{n.Value}}})
			r.count("send")
		}
	case *ast.IndexExpr:
		if r.mapGuard && r.isMap(n.X) {
			if r.mapLHS[n] {
				n.X = r.call("MapW", n.X, r.site(n))
				r.count("map-write")
			} else {
				n.X = r.call("MapR", n.X, r.site(n))
				r.count("map-read")
			}
		}
	case *ast.CallExpr:
		if r.mapGuard && len(n.Args) == 2 && r.isBuiltin(n.Fun, "delete") && r.isMap(n.Args[0]) {
			n.Args[0] = r.call("MapW", n.Args[0], r.site(n))
			r.count("map-write")
		}
		if len(n.Args) == 1 && r.isBuiltin(n.Fun, "close") {
			n.Fun = r.dsim("Close")
			r.count("close")
		} else if len(n.Args) == 1 && r.isBuiltin(n.Fun, "len") && r.isChan(n.Args[0]) {
			n.Fun = r.dsim("Len")
			r.count("chanlen")
		}
	case *ast.GoStmt:
		c.Replace(r.rewriteGo(n))
		r.count("go")
	case *ast.RangeStmt:
		if r.isChan(n.X) {
			if s := r.rewriteChanRange(n); s != nil {
				c.Replace(s)
				r.count("range-chan")
			}
		} else if r.isMap(n.X) {
			if s := r.rewriteMapRange(n); s != nil {
				c.Replace(s)
				r.count("range-map")
			}
		}
	case *ast.SelectStmt:
		if s := r.rewriteSelect(n); s != nil {
			c.Replace(s)
			r.count("select")
		}
	}
	return true
}

func (r *rewriter) rewriteGo(n *ast.GoStmt) ast.Stmt {
	call := n.Call
	var pre []ast.Stmt
	// evaluate function value and arguments now, as the go statement does
	if _, isLit := call.Fun.(*ast.FuncLit); !isLit {
		// method values / function values: bind now unless it is a plain package-level func ident or selector on a package
		if !r.isStaticFunc(call.Fun) {
			f := r.fresh("f")
			pre = append(pre, &ast.AssignStmt{Lhs: []ast.Expr{f}, Tok: token.DEFINE, Rhs: []ast.Expr{call.Fun}})
			call.Fun = f
		}
	}
	for i, a := range call.Args {
		if isConstLit(a) {
			continue
		}
		if call.Ellipsis.IsValid() && i == len(call.Args)-1 {
			v := r.fresh("a")
			pre = append(pre, &ast.AssignStmt{Lhs: []ast.Expr{v}, Tok: token.DEFINE, Rhs: []ast.Expr{a}})
			call.Args[i] = v
			continue
		}
		// untyped constants / nil keep their flexibility when left in place
		if tv, ok := r.pkg.TypesInfo.Types[a]; ok && (tv.Value != nil || tv.IsNil()) {
			continue
		}
		v := r.fresh("a")
		pre = append(pre, &ast.AssignStmt{Lhs: []ast.Expr{v}, Tok: token.DEFINE, Rhs: []ast.Expr{a}})
		call.Args[i] = v
	}
	body := &ast.FuncLit{Type: &ast.FuncType{Params: &ast.FieldList{}}, Body: &ast.BlockStmt{List: []ast.Stmt{&ast.ExprStmt{X: call}}}}
	if lit, ok := call.Fun.(*ast.FuncLit); ok && len(call.Args) == 0 && (lit.Type.Results == nil || len(lit.Type.Results.List) == 0) {
		body = lit
	}
	goCall := &ast.ExprStmt{X: r.call("Go", r.site(n), body)}
	if len(pre) == 0 {
		return goCall
	}
	return &ast.BlockStmt{List: append(pre, goCall)}
}

func (r *rewriter) isStaticFunc(e ast.Expr) bool {
	switch x := e.(type) {
	case *ast.Ident:
		_, ok := r.pkg.TypesInfo.Uses[x].(*types.Func)
		return ok
	case *ast.SelectorExpr:
		if id, ok := x.X.(*ast.Ident); ok {
			if _, ok := r.pkg.TypesInfo.Uses[id].(*types.PkgName); ok {
				return true
			}
		}
	case *ast.IndexExpr: // generic instantiation f[T]
		return r.isStaticFunc(x.X)
	}
	return false
}

func isConstLit(e ast.Expr) bool {
	_, ok := e.(*ast.BasicLit)
	return ok
}

func (r *rewriter) rewriteChanRange(n *ast.RangeStmt) ast.Stmt {
	if n.Tok == token.ASSIGN {
		r.gap(n, "range over channel with '=' not rewritten")
		return nil
	}
	cv := r.fresh("c")
	okv := r.fresh("ok")
	var lhs ast.Expr = ast.NewIdent("_")
	if n.Key != nil {
		lhs = n.Key
	}
	recv := &ast.AssignStmt{Lhs: []ast.Expr{lhs, okv}, Tok: token.DEFINE, Rhs: []ast.Expr{r.call("Recv2", cv)}}
	brk := &ast.IfStmt{Cond: &ast.UnaryExpr{Op: token.NOT, X: okv}, Body: &ast.BlockStmt{List: []ast.Stmt{&ast.BranchStmt{Tok: token.BREAK}}}}
	body := &ast.BlockStmt{List: append([]ast.Stmt{recv, brk}, n.Body.List...)}
	return &ast.ForStmt{
		Init: &ast.AssignStmt{Lhs: []ast.Expr{cv}, Tok: token.DEFINE, Rhs: []ast.Expr{n.X}},
		Body: body,
	}
}

func isBlank(e ast.Expr) bool {
	id, ok := e.(*ast.Ident)
	return e == nil || (ok && id.Name == "_")
}

func (r *rewriter) rewriteMapRange(n *ast.RangeStmt) ast.Stmt {
	if n.Tok == token.ASSIGN {
		r.gap(n, "range over map with '=' not rewritten (order not permuted)")
		return nil
	}
	it := r.fresh("it")
	var pre []ast.Stmt
	var lhs, rhs []ast.Expr
	if !isBlank(n.Key) {
		lhs = append(lhs, n.Key)
		rhs = append(rhs, &ast.SelectorExpr{X: it, Sel: ast.NewIdent("K")})
	}
	if !isBlank(n.Value) {
		lhs = append(lhs, n.Value)
		rhs = append(rhs, &ast.SelectorExpr{X: it, Sel: ast.NewIdent("V")})
	}
	if len(lhs) > 0 {
		pre = append(pre, &ast.AssignStmt{Lhs: lhs, Tok: token.DEFINE, Rhs: rhs})
		// avoid "declared and not used" for variables the original body ignores? the original
		// would not compile either, so nothing to do.
	}
	return &ast.ForStmt{
		Init: &ast.AssignStmt{Lhs: []ast.Expr{it}, Tok: token.DEFINE, Rhs: []ast.Expr{r.mapIterCall(n)}},
		Cond: &ast.CallExpr{Fun: &ast.SelectorExpr{X: it, Sel: ast.NewIdent("Next")}},
		Body: &ast.BlockStmt{List: append(pre, n.Body.List...)},
	}
}

func (r *rewriter) mapIterCall(n *ast.RangeStmt) ast.Expr {
	if r.mapGuard {
		return r.call("MapIterG", n.X, r.site(n))
	}
	return r.call("MapIter", n.X)
}

func (r *rewriter) rewriteSelect(n *ast.SelectStmt) ast.Stmt {
	hasDefault := false
	var cases []ast.Expr
	var clauses []ast.Stmt
	var initL, initR []ast.Expr
	sel := r.fresh("sel")
	usesSel := false
	idx := 0
	for _, cl := range n.Body.List {
		cc := cl.(*ast.CommClause)
		if cc.Comm == nil {
			hasDefault = true
			clauses = append(clauses, &ast.CaseClause{List: []ast.Expr{&ast.UnaryExpr{Op: token.SUB, X: &ast.BasicLit{Kind: token.INT, Value: "1"}}}, Body: cc.Body})
			continue
		}
		body := cc.Body
		switch s := cc.Comm.(type) {
		case *ast.SendStmt:
			cases = append(cases, &ast.CallExpr{Fun: r.call("SendCaseTo", s.Chan), Args: []ast.Expr{s.Value}})
		case *ast.ExprStmt:
			u := ast.Unparen(s.X).(*ast.UnaryExpr)
			cases = append(cases, r.call("RecvCase", u.X))
		case *ast.AssignStmt:
			u := ast.Unparen(s.Rhs[0]).(*ast.UnaryExpr)
			cv := r.fresh("c")
			initL = append(initL, cv)
			initR = append(initR, u.X)
			cases = append(cases, r.call("RecvCase", cv))
			usesSel = true
			rhs := []ast.Expr{r.call("RecvVal", cv, sel)}
			if len(s.Lhs) == 2 {
				rhs = append(rhs, &ast.SelectorExpr{X: sel, Sel: ast.NewIdent("OK")})
			}
			bind := &ast.AssignStmt{Lhs: s.Lhs, Tok: s.Tok, Rhs: rhs}
			body = append([]ast.Stmt{bind}, body...)
			if s.Tok == token.DEFINE {
				// a bound variable the body never uses is legal in a select clause but not as a plain
				// definition: reference them.
				for _, l := range s.Lhs {
					if id, ok := l.(*ast.Ident); ok && id.Name != "_" {
						body = append(body[:1:1], append([]ast.Stmt{&ast.AssignStmt{Lhs: []ast.Expr{ast.NewIdent("_")}, Tok: token.ASSIGN, Rhs: []ast.Expr{ast.NewIdent(id.Name)}}}, body[1:]...)...)
					}
				}
			}
		}
		clauses = append(clauses, &ast.CaseClause{List: []ast.Expr{&ast.BasicLit{Kind: token.INT, Value: strconv.Itoa(idx)}}, Body: body})
		idx++
	}
	hd := "false"
	if hasDefault {
		hd = "true"
	}
	var selArg ast.Expr = ast.NewIdent("nil")
	var init ast.Stmt
	if usesSel {
		selArg = sel
		initL = append(initL, sel)
		r.need["dsim"] = true
		initR = append(initR, &ast.CallExpr{Fun: ast.NewIdent("new"), Args: []ast.Expr{&ast.SelectorExpr{X: ast.NewIdent("dsim_dsim"), Sel: ast.NewIdent("Sel")}}})
		init = &ast.AssignStmt{Lhs: initL, Tok: token.DEFINE, Rhs: initR}
	}
	args := append([]ast.Expr{selArg, ast.NewIdent(hd)}, cases...)
	return &ast.SwitchStmt{Init: init, Tag: r.call("Select", args...), Body: &ast.BlockStmt{List: clauses}}
}

// insertYields puts dsim.Y() in front of every statement inside function literals that are
// started as goroutines (dsim.Go(...) / errgroup Go(...)) in this file.
func (r *rewriter) insertYields() {
	var lits []*ast.FuncLit
	ast.Inspect(r.file, func(n ast.Node) bool {
		call, ok := n.(*ast.CallExpr)
		if !ok {
			return true
		}
		se, ok := call.Fun.(*ast.SelectorExpr)
		if !ok || (se.Sel.Name != "Go" && se.Sel.Name != "TryGo") {
			return true
		}
		for _, a := range call.Args {
			if l, ok := a.(*ast.FuncLit); ok {
				lits = append(lits, l)
			}
		}
		return true
	})
	for _, l := range lits {
		r.yieldBlock(l.Body)
	}
}

func (r *rewriter) yieldBlock(b *ast.BlockStmt) {
	if b == nil {
		return
	}
	var out []ast.Stmt
	for _, s := range b.List {
		switch s.(type) {
		case *ast.DeclStmt, *ast.LabeledStmt:
		default:
			out = append(out, &ast.ExprStmt{X: r.call("Y")})
			r.count("stmt-yield")
		}
		out = append(out, s)
		ast.Inspect(s, func(n ast.Node) bool {
			switch x := n.(type) {
			case *ast.FuncLit:
				return false
			case *ast.BlockStmt:
				if x != b {
					r.yieldBlock(x)
					return false
				}
			case *ast.CaseClause:
				blk := &ast.BlockStmt{List: x.Body}
				r.yieldBlock(blk)
				x.Body = blk.List
				return false
			}
			return true
		})
	}
	b.List = out
}

// convTo wraps e in a conversion to the (basic, typed) type the original expression had.
func (r *rewriter) convTo(orig ast.Expr, e ast.Expr) ast.Expr {
	tv, ok := r.pkg.TypesInfo.Types[orig]
	if !ok {
		return e
	}
	b, ok := tv.Type.(*types.Basic)
	if !ok || b.Info()&types.IsUntyped != 0 || b.Kind() == types.Int {
		return e
	}
	if b.Info()&types.IsInteger == 0 {
		return e
	}
	return &ast.CallExpr{Fun: ast.NewIdent(b.Name()), Args: []ast.Expr{e}}
}

func (r *rewriter) applyKnobs() {
	for _, k := range r.knobs {
		hit := false
		switch k.Kind {
		case "const":
			// every use of the package-level constant becomes dsim.Knob(<knob>, <const>) so that the value is
			// read at run time (the declaration stays a constant and is the default).
			obj := r.pkg.Types.Scope().Lookup(k.Name)
			if obj == nil {
				break
			}
			astutil.Apply(r.file, nil, func(c *astutil.Cursor) bool {
				id, ok := c.Node().(*ast.Ident)
				if !ok || r.pkg.TypesInfo.Uses[id] != obj {
					return true
				}
				if _, isSel := c.Parent().(*ast.SelectorExpr); isSel {
					return true
				}
				c.Replace(r.convTo(id, r.call("Knob", &ast.BasicLit{Kind: token.STRING, Value: strconv.Quote(k.Knob)}, ast.NewIdent(k.Name))))
				hit = true
				return true
			})
		case "literal":
			for _, d := range r.file.Decls {
				fd, ok := d.(*ast.FuncDecl)
				if !ok || fd.Name.Name != k.Func || fd.Body == nil {
					continue
				}
				nth := 0
				astutil.Apply(fd.Body, nil, func(c *astutil.Cursor) bool {
					bl, ok := c.Node().(*ast.BasicLit)
					if !ok || bl.Kind != token.INT || strings.ReplaceAll(bl.Value, "_", "") != k.Value || hit {
						return true
					}
					if _, isCall := c.Parent().(*ast.CallExpr); isCall {
						if ce := c.Parent().(*ast.CallExpr); len(ce.Args) == 2 {
							if se, ok := ce.Fun.(*ast.SelectorExpr); ok && se.Sel.Name == "Knob" {
								return true
							}
						}
					}
					if nth == k.Nth {
						c.Replace(r.convTo(bl, r.call("Knob", &ast.BasicLit{Kind: token.STRING, Value: strconv.Quote(k.Knob)}, bl)))
						hit = true
					}
					nth++
					return true
				})
			}
		}
		if hit {
			id := k.File + ":" + k.Knob
			dup := false
			for _, h := range r.rep.KnobsHit {
				if h == id {
					dup = true
				}
			}
			if !dup {
				r.rep.KnobsHit = append(r.rep.KnobsHit, id)
			}
			r.count("knob")
		}
	}
}
