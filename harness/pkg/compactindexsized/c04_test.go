package compactindexsized

import (
	"bytes"
	"context"
	"errors"
	"fmt"
	"io"
	"os"
	"path/filepath"
	"strings"
	"testing"
	"time"

	"dsim"
	"dsim/fault"
	"dsim/runner"
	"dsim/simos"

	"golang.org/x/exp/mmap"
)

func TestVerif(t *testing.T) { runner.Main() }

func init() { runner.Register("C04", scenarioC04) }

// c04readerAt: an io.ReaderAt over bytes showing every legal variant of the contract.
type c04readerAt struct {
	b          []byte
	eofVariant bool // (len, io.EOF) at the exact end
	partialEOF bool // at the end: fewer bytes with io.EOF (always legal)
}

func (r *c04readerAt) ReadAt(p []byte, off int64) (int, error) {
	if off < 0 {
		return 0, errors.New("negative offset")
	}
	if off >= int64(len(r.b)) {
		return 0, io.EOF
	}
	n := copy(p, r.b[off:])
	if n < len(p) {
		return n, io.EOF
	}
	if r.eofVariant && off+int64(n) == int64(len(r.b)) {
		return n, io.EOF
	}
	return n, nil
}

type c04kv struct{ k, v []byte }

func scenarioC04(x *runner.X) {
	t := x.Tape
	r := t.SubRand()
	valueSize := t.Pick(8, 36, 1, 3, 24, 48, 255, 100, 252, 253)
	bucketKnob := t.Pick(10000, 4, 16, 64)
	dsim.SetKnobs(map[string]int{"compactindex.targetEntriesPerBucket": bucketKnob})
	n := t.Range(1, 60)
	switch t.Intn(8) {
	case 0:
		n = t.Range(61, 400)
	case 1:
		if x.Tier == "thorough" {
			n = t.Pick(9999, 10000, 10001, 20001, 60000)
			bucketKnob = 10000
			dsim.SetKnobs(map[string]int{})
		} else if t.Bool(0.3) {
			// one bucket with a few thousand entries at the real bucket size: more than a thousand
			// records to mine a hash domain for, and an entry table longer than 64 KiB
			n = t.Range(1100, 3200)
			bucketKnob = 10000
			dsim.SetKnobs(map[string]int{})
			x.Probe("c04.one-large-bucket")
		}
	}
	declMul := t.Pick(1, 1, 2, 10, 3)
	declared := n * declMul
	if t.Bool(0.1) {
		declared = t.Range(1, n) // fewer buckets than the real count would give
	}
	mode := t.Pick(0, 0, 0, 0, 1, 2, 3) // 0 clean, 1 duplicate key, 2 oversize key, 3 adversarial same-bucket keys
	disk := t.Bool(0.3) && mode == 0
	// keys
	seen := map[string]bool{}
	var kvs []c04kv
	numBuckets := (uint(declared) + uint(bucketKnob) - 1) / uint(bucketKnob)
	hdr := Header{NumBuckets: uint32(numBuckets)}
	fails := 0
	for len(kvs) < n {
		if fails > 30 {
			// all-zero tapes (shrinking) must still terminate: fall back to counter keys
			k := []byte(fmt.Sprintf("fallback-key-%d", len(kvs)))
			fails = 0
			if !seen[string(k)] {
				seen[string(k)] = true
				kvs = append(kvs, c04kv{k, r.Bytes(valueSize)})
			}
			continue
		}
		var kl int
		switch t.Intn(10) {
		case 0:
			kl = 0
		case 1:
			kl = t.Pick(64, 255, 256, 4096, 65535)
		default:
			kl = 1 + r.Intn(40)
		}
		k := r.Bytes(kl)
		if mode == 3 && numBuckets > 1 && hdr.BucketHash(k) != 0 {
			// adversarial: every key lands in bucket 0
			ok := false
			for tries := 0; tries < 200; tries++ {
				k = r.Bytes(1 + r.Intn(12))
				if hdr.BucketHash(k) == 0 {
					ok = true
					break
				}
			}
			if !ok {
				fails++
				continue
			}
		}
		if seen[string(k)] {
			fails++
			continue
		}
		seen[string(k)] = true
		kvs = append(kvs, c04kv{k, r.Bytes(valueSize)})
	}
	order2 := t.Perm(len(kvs))
	nMeta := t.Range(0, 4)
	type mkv struct{ k, v []byte }
	var meta []mkv
	for i := 0; i < nMeta; i++ {
		meta = append(meta, mkv{r.Bytes(1 + r.Intn(20)), r.Bytes(r.Intn(60))})
	}
	readerKind := t.Intn(4) // 0 simos file, 1 mmap, 2 ReaderAt eof-variant, 3 ReaderAt plain
	staleTmp := t.Bool(0.08)
	prefetch := t.Bool(0.4)
	x.Digest(valueSize, bucketKnob, n, declared, mode, disk, readerKind, nMeta, dsim.HashBytes(kvs[0].k))
	x.Note("keys", n)
	x.Note("value_size", valueSize)
	x.Note("declared_items", declared)
	x.Note("entries_per_bucket_knob", bucketKnob)
	x.Note("mode", []string{"clean", "duplicate-key", "oversize-key", "same-bucket-keys"}[mode])
	x.Note("disk_faults", disk)
	x.Note("reader", []string{"file", "mmap", "readerat-eof-variant", "readerat"}[readerKind])

	dir := x.TempDir()
	build := func(tag string, order []int, plan *fault.Plan) (path string, err error, allNil bool) {
		tmp := filepath.Join(dir, "tmp-"+tag)
		os.MkdirAll(tmp, 0o755)
		if staleTmp && plan == nil {
			// an earlier indexing run died in this scratch directory: its builder was never closed and
			// its spill files, holding other data, are still there
			if old, err := NewBuilderSized(tmp, uint(declared), uint(valueSize)); err == nil {
				for k := 0; k < len(kvs) && k < 50; k++ {
					old.Insert(kvs[k].k, r.Bytes(valueSize))
				}
				// it got as far as sealing (the spill files are flushed to disk) but never cleaned up
				if sf, err := simos.OpenFile(filepath.Join(dir, "stale-"+tag), os.O_CREATE|os.O_RDWR|os.O_TRUNC, 0o644); err == nil {
					old.Seal(context.Background(), sf)
					sf.Close()
				}
				x.Probe("c04.stale-scratch-directory")
			}
		}
		if plan != nil {
			fault.Install(plan)
			defer fault.Stop()
		}
		b, err := NewBuilderSized(tmp, uint(declared), uint(valueSize))
		if err != nil {
			return "", fmt.Errorf("NewBuilderSized: %w", err), false
		}
		defer b.Close()
		if err := b.SetKind([]byte("test-kind")); err != nil {
			return "", fmt.Errorf("SetKind: %w", err), false
		}
		for _, m := range meta {
			if err := b.Metadata().Add(m.k, m.v); err != nil {
				return "", fmt.Errorf("Metadata.Add: %w", err), false
			}
		}
		for _, i := range order {
			if err := b.Insert(kvs[i].k, kvs[i].v); err != nil {
				return "", fmt.Errorf("Insert: %w", err), false
			}
		}
		if mode == 1 {
			d := kvs[order[0]]
			if err := b.Insert(d.k, r.Bytes(valueSize)); err != nil {
				return "", fmt.Errorf("Insert(duplicate): %w", err), false
			}
		}
		if mode == 2 {
			big := c04kv{r.Bytes(65536 + r.Intn(3)), r.Bytes(valueSize)}
			if err := b.Insert(big.k, big.v); err != nil {
				return "", fmt.Errorf("Insert(oversize): %w", err), false
			}
			// accepted: then it is an inserted key like any other
			kvs = append(kvs, big)
		}
		path = filepath.Join(dir, "index-"+tag)
		f, err := simos.OpenFile(path, os.O_CREATE|os.O_RDWR|os.O_TRUNC, 0o644)
		if err != nil {
			return "", fmt.Errorf("create: %w", err), false
		}
		if err := b.Seal(context.Background(), f); err != nil {
			f.Close()
			return "", fmt.Errorf("Seal: %w", err), false
		}
		if err := f.Close(); err != nil {
			return "", fmt.Errorf("Close: %w", err), false
		}
		return path, nil, true
	}
	verify := func(path string, what string) bool {
		raw, err := os.ReadFile(path)
		if err != nil {
			return x.Failf("harness", "cannot read back the sealed file", "%v", err)
		}
		var stream io.ReaderAt
		switch readerKind {
		case 0:
			f, err := simos.Open(path)
			if err != nil {
				return x.Failf("harness", "open", "%v", err)
			}
			defer f.Close()
			fault.Install(&fault.Plan{P: map[string]float64{"disk-eof-variant": 0.5}, Budget: -1})
			defer fault.Stop()
			stream = f
		case 1:
			m, err := mmap.Open(path)
			if err != nil {
				return x.Failf("harness", "mmap", "%v", err)
			}
			defer m.Close()
			stream = m
		case 2:
			stream = &c04readerAt{b: raw, eofVariant: true}
		default:
			stream = &c04readerAt{b: raw}
		}
		db, err := Open(stream)
		if err != nil {
			return x.Failf("oracle", "a sealed index cannot be opened", "%s: %v", what, err)
		}
		if prefetch {
			db.Prefetch(true) // what the server sets for indexes opened over http(s)
			x.Probe("c04.prefetch")
		}
		if !db.KindIs([]byte("test-kind")) {
			return x.Failf("oracle", "metadata written at build time is not read back", "%s: kind", what)
		}
		for _, m := range meta {
			all := db.Header.Metadata.GetAll(m.k)
			found := false
			for _, v := range all {
				if bytes.Equal(v, m.v) {
					found = true
				}
			}
			if !found {
				return x.Failf("oracle", "metadata written at build time is not read back", "%s: key %x", what, m.k)
			}
		}
		for _, kv := range kvs {
			got, err := db.Lookup(kv.k)
			if err != nil {
				return x.Failf("oracle", "an inserted key is not found in the sealed index", "%s: key %x (len %d) of %d keys, value size %d, declared %d, per-bucket %d: %v", what, clip(kv.k), len(kv.k), n, valueSize, declared, bucketKnob, err)
			}
			if !bytes.Equal(got, kv.v) {
				return x.Failf("oracle", "an inserted key returns a different value", "%s: key %x: got %x want %x", what, clip(kv.k), got, kv.v)
			}
		}
		return false
	}
	ident := make([]int, len(kvs))
	for i := range ident {
		ident[i] = i
	}
	x.Sim(runner.SimOpts{Phase: "compactindex", FaultsFlowing: false, Cfg: dsim.Config{MaxSteps: 5000000, MaxSimTime: 100 * time.Hour}}, func() {
		if mode == 1 || mode == 2 {
			path, err, _ := build("a", ident, nil)
			if err == nil {
				// the builder accepted input it cannot honour: then the file must still answer every key
				x.Probe("c04.unsupported-input-accepted")
				name := "a duplicate key was accepted and the sealed index loses or corrupts entries"
				if mode == 2 {
					name = "an oversize key was accepted and the sealed index loses or corrupts entries"
				}
				if mode == 1 {
					x.Failf("oracle", "building with a duplicate key reported success", "%d keys", n)
					return
				}
				before := x.Failed()
				if verify(path, "after oversize key") && !before {
					_ = name
				}
			} else {
				x.Probe("c04.unsupported-input-rejected")
			}
			return
		}
		if disk {
			kinds := []string{"disk-write-err", "disk-short-write", "disk-open-err", "disk-seek-err", "disk-read-err", "disk-sync-err", "disk-close-err", "disk-short-read"}
			plan := &fault.Plan{P: map[string]float64{}, Budget: t.Range(1, 2)}
			for _, k := range kinds {
				if t.Bool(0.4) {
					plan.P[k] = []float64{0.02, 0.1, 0.5}[t.Intn(3)]
				}
			}
			path, err, allNil := build("f", ident, plan)
			if err != nil {
				x.Probe("c04.build-failed-under-disk-fault")
				return
			}
			if allNil {
				verify(path, "built under disk faults, every call returned nil")
			}
			return
		}
		p1, err, _ := build("a", ident, nil)
		if err != nil {
			if valueSize > 100 && strings.HasPrefix(err.Error(), "NewBuilderSized:") {
				// "unsupported value size => building fails with an error": allowed for sizes no index kind uses
				x.Probe("c04.large-value-size-rejected")
				return
			}
			if errors.Is(err, ErrCollision) {
				// an over-full bucket may legitimately fail to mine; it must then be an error (it is)
				x.Probe("c04.collision-error")
				return
			}
			x.Failf("oracle", "building a well-formed index failed", "%d keys, value size %d, declared %d: %v", n, valueSize, declared, err)
			return
		}
		if verify(p1, "first build") {
			return
		}
		p2, err, _ := build("b", ident, nil)
		if err != nil {
			x.Failf("oracle", "building the same inserts a second time failed", "%v", err)
			return
		}
		b1, _ := os.ReadFile(p1)
		b2, _ := os.ReadFile(p2)
		if !bytes.Equal(b1, b2) {
			x.Failf("oracle", "sealing the same inserts twice gives different files", "sizes %d / %d, first difference at byte %d", len(b1), len(b2), firstDiff(b1, b2))
			return
		}
		p3, err, _ := build("c", order2, nil)
		if err != nil {
			x.Failf("oracle", "building with a different insertion order failed", "%v", err)
			return
		}
		if verify(p3, "permuted insertion order") {
			return
		}
		if b3, _ := os.ReadFile(p3); bytes.Equal(b1, b3) {
			x.Probe("c04.permuted-order-identical-file")
		}
		// constructor limits
		if _, err := NewBuilderSized(filepath.Join(dir, "t0"), 10, 0); err == nil {
			x.Failf("oracle", "value size 0 accepted", "")
		}
		if _, err := NewBuilderSized(filepath.Join(dir, "t256"), 10, 256); err == nil {
			x.Failf("oracle", "value size 256 accepted", "")
		}
	})
	x.SetNontrivial(true)
}

func clip(b []byte) []byte {
	if len(b) > 24 {
		return b[:24]
	}
	return b
}

func firstDiff(a, b []byte) int {
	for i := 0; i < len(a) && i < len(b); i++ {
		if a[i] != b[i] {
			return i
		}
	}
	if len(a) < len(b) {
		return len(a)
	}
	return len(b)
}
