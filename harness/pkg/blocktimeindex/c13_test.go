package blocktimeindex

import (
	"bytes"
	"os"
	"path/filepath"
	"testing"

	"dsim/runner"
)

func TestVerif(t *testing.T) { runner.Main() }

// C13 (slot-to-blocktime): truncated files fail loudly.
func init() { runner.Register("C13T", scenarioC13T) }

func scenarioC13T(x *runner.X) {
	t := x.Tape
	r := t.SubRand()
	epoch := uint64(t.Range(0, 700))
	n := t.Range(1, 60)
	real := x.Tier == "thorough" && t.Bool(0.05)
	start := epoch * 432000
	var ix *Index
	if real {
		ix = NewForEpoch(epoch)
		n = 432000
	} else {
		ix = NewIndexer(start, start+uint64(n)-1, uint64(n))
	}
	want := map[uint64]int64{}
	for i := 0; i < n; i++ {
		if real && r.Intn(50) != 0 {
			continue
		}
		if r.Intn(6) == 0 {
			continue // skipped slot: time stays 0
		}
		v := int64(1 + r.Uint64()%(1<<32-1))
		if err := ix.Set(start+uint64(i), v); err != nil {
			x.Failf("harness", "set", "%v", err)
			return
		}
		want[start+uint64(i)] = v
	}
	var buf bytes.Buffer
	if _, err := ix.WriteTo(&buf); err != nil {
		x.Failf("oracle", "writing the index failed", "%v", err)
		return
	}
	full := buf.Bytes()
	viaFile := t.Bool(0.3)
	x.Digest(epoch, n, real, viaFile, len(full))
	x.Note("epoch", epoch)
	x.Note("slots", n)
	x.Note("file_bytes", len(full))
	// complete file
	base, err := FromBytes(full)
	if err != nil {
		x.Failf("oracle", "the complete slot-to-blocktime index cannot be opened", "%v", err)
		return
	}
	for s, v := range want {
		got, err := base.Get(s)
		if err != nil || got != v {
			x.Failf("oracle", "the complete slot-to-blocktime index gives a wrong time", "slot %d got %d err %v want %d", s, got, err, v)
			return
		}
	}
	var cuts []int
	if len(full) <= 5000 {
		for k := 0; k < len(full); k++ {
			cuts = append(cuts, k)
		}
		x.Probe("c13.every-offset")
	} else {
		for k := 0; k < 60; k++ {
			cuts = append(cuts, k)
		}
		for i := 0; i < 200; i++ {
			cuts = append(cuts, r.Intn(len(full)))
		}
		for d := 1; d <= 9; d++ {
			cuts = append(cuts, len(full)-d)
		}
	}
	dir := ""
	if viaFile {
		dir = x.TempDir()
	}
	for _, k := range cuts {
		x.Probe("c13.cuts")
		x.Fault("truncate")
		var ix2 *Index
		var err error
		if viaFile && k%7 == 0 {
			p := filepath.Join(dir, "cut")
			os.WriteFile(p, full[:k], 0o644)
			ix2, err = FromFile(p)
		} else {
			ix2, err = FromBytes(full[:k])
		}
		if err != nil {
			continue
		}
		for s, v := range want {
			got, err := ix2.Get(s)
			if err != nil {
				continue
			}
			if got != v {
				if x.Failf("oracle", "a truncated slot-to-blocktime index answers with a different time", "cut at byte %d of %d: slot %d (offset %d in the epoch) got %d want %d", k, len(full), s, s-start, got, v) {
					return
				}
			}
		}
	}
}
