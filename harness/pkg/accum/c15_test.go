package accum

import (
	"bytes"
	"context"
	"errors"
	"fmt"
	"io"
	"strings"
	"testing"
	"time"

	"dsim"
	"dsim/runner"
	"dsim/simtime"

	"github.com/ipfs/go-cid"
	carv1 "github.com/ipld/go-car"
	"github.com/ipld/go-car/util"
	"github.com/multiformats/go-multihash"
	"github.com/rpcpool/yellowstone-faithful/carreader"
	"github.com/rpcpool/yellowstone-faithful/iplddecoders"
)

func TestVerif(t *testing.T) { runner.Main() }

func init() { runner.Register("C15", scenarioC15) }

type c15obj struct {
	kind   iplddecoders.Kind
	cid    cid.Cid
	data   []byte
	offset uint64
	seclen uint64
}

type c15group struct {
	parent   *c15obj
	children []*c15obj
}

// c15stream is the simulated file: legal short reads, scheduling points, an optional error at byte k.
type c15stream struct {
	b      []byte
	pos    int
	failAt int // <0: never
	short  bool
}

var errC15Disk = errors.New("injected read error")

func (s *c15stream) Read(p []byte) (int, error) {
	sim := dsim.Active()
	if sim != nil && !sim.Stopping() {
		sim.Yield("file.read")
	}
	if s.failAt >= 0 && s.pos >= s.failAt {
		if sim != nil {
			sim.Fault("read-err")
		}
		return 0, errC15Disk
	}
	if s.pos >= len(s.b) {
		return 0, io.EOF
	}
	n := len(p)
	if n > len(s.b)-s.pos {
		n = len(s.b) - s.pos
	}
	if s.failAt >= 0 && s.pos+n > s.failAt {
		n = s.failAt - s.pos
	}
	if s.short && n > 1 && sim != nil && !sim.Stopping() {
		if k := sim.Tape().Intn(4); k > 0 {
			n = 1 + sim.Tape().Intn(n)
			sim.Fault("short-read")
		}
	}
	copy(p, s.b[s.pos:s.pos+n])
	s.pos += n
	return n, nil
}
func (s *c15stream) Close() error { return nil }

func c15cid(data []byte) cid.Cid {
	mh, err := multihash.Sum(data, multihash.SHA2_256, -1)
	if err != nil {
		panic(err)
	}
	return cid.NewCidV1(cid.DagCBOR, mh)
}

// One run = 1..3 traversals in a row: the accumulator keeps process-level state (pooled flush
// buffers), so what one traversal leaves behind is part of the next one's environment.
func scenarioC15(x *runner.X) {
	n := x.Tape.Pick(1, 2, 3, 1)
	for i := 0; i < n && !x.Failed(); i++ {
		c15traversal(x)
	}
	if n > 1 {
		x.Probe("c15.several_traversals")
	}
}

func c15traversal(x *runner.X) {
	t := x.Tape
	r := t.SubRand()
	knobCap := t.Pick(5000, 1, 3, 5000)
	queueCap := t.Pick(1000, 0, 1, 2)
	dsim.SetKnobs(map[string]int{"accum.objectCap": knobCap, "accum.flushQueue": queueCap})
	nBlocks := t.Range(0, 6)
	trailing := t.Range(0, 3)
	var ignore []iplddecoders.Kind
	switch t.Intn(4) {
	case 1:
		ignore = []iplddecoders.Kind{iplddecoders.KindEpoch, iplddecoders.KindSubset}
	case 2:
		ignore = []iplddecoders.Kind{iplddecoders.KindEntry, iplddecoders.KindRewards}
	case 3:
		ignore = []iplddecoders.Kind{iplddecoders.KindDataFrame}
	}
	skip := 0
	if t.Bool(0.15) {
		skip = t.Range(1, 4)
	}
	childKinds := []iplddecoders.Kind{iplddecoders.KindTransaction, iplddecoders.KindEntry, iplddecoders.KindRewards, iplddecoders.KindDataFrame, iplddecoders.KindSubset, iplddecoders.KindEpoch}
	var objs []*c15obj
	mk := func(kind iplddecoders.Kind) *c15obj {
		var size int
		switch t.Intn(6) {
		case 2:
			// the length field (36-byte CID + data) exactly at, one below or one above the values
			// where its varint grows: 2^7, 2^14 and (rarely: 2 MiB of payload) 2^21
			if t.Bool(0.5) {
				bits := t.Pick(7, 14, 7, 14, 7, 14, 7, 14, 21)
				size = 1<<bits - 36 + t.Intn(3) - 1
				x.Probe(fmt.Sprintf("c15.length_field_at_2^%d", bits))
			} else {
				size = 2 + r.Intn(60)
			}
		case 0:
			size = 200 + r.Intn(400) // 2-byte section length
		case 1:
			size = 16400 + r.Intn(300) // 3-byte section length
		default:
			size = 2 + r.Intn(60)
		}
		data := r.Bytes(size)
		data[0] = 0x85
		data[1] = byte(kind)
		o := &c15obj{kind: kind, data: data, cid: c15cid(data)}
		objs = append(objs, o)
		return o
	}
	for b := 0; b < nBlocks; b++ {
		nc := t.Range(0, 7)
		if t.Bool(0.1) {
			nc = knobCap + t.Range(1, 3)
			if nc > 12 {
				nc = t.Range(8, 12)
			}
		}
		for i := 0; i < nc; i++ {
			mk(childKinds[t.Intn(len(childKinds))])
		}
		mk(iplddecoders.KindBlock)
	}
	for i := 0; i < trailing; i++ {
		mk(childKinds[t.Intn(len(childKinds))])
	}
	// CAR bytes
	var car bytes.Buffer
	// 1..8 roots: the header is 58..317 bytes long, its length prefix one or two bytes
	roots := []cid.Cid{c15cid([]byte("root"))}
	for k := t.Pick(0, 0, 1, 2, 3, 4, 5, 7); k > 0; k-- {
		roots = append(roots, c15cid([]byte(fmt.Sprintf("root%d", k))))
	}
	if err := carv1.WriteHeader(&carv1.CarHeader{Roots: roots, Version: 1}, &car); err != nil {
		panic(err)
	}
	for _, o := range objs {
		o.offset = uint64(car.Len())
		if err := util.LdWrite(&car, o.cid.Bytes(), o.data); err != nil {
			panic(err)
		}
		o.seclen = uint64(car.Len()) - o.offset
	}
	// reference grouping
	ignored := func(k iplddecoders.Kind) bool {
		for _, i := range ignore {
			if i == k {
				return true
			}
		}
		return false
	}
	var want []c15group
	var cur []*c15obj
	for i, o := range objs {
		if i < skip {
			continue
		}
		if o.kind == iplddecoders.KindBlock {
			want = append(want, c15group{parent: o, children: cur})
			cur = nil
			continue
		}
		if !ignored(o.kind) {
			cur = append(cur, o)
		}
	}
	if len(cur) > 0 {
		want = append(want, c15group{children: cur})
	}
	readErr := t.Bool(0.2)
	failAt := -1
	if readErr {
		failAt = t.Intn(car.Len() + 1)
	}
	consumer := t.Intn(4) // 0 instantaneous, 1 yields, 2 sleeps, 3 mixed
	layout := ""
	for _, o := range objs {
		layout += fmt.Sprintf("%d", int(o.kind))
	}
	x.Digest(layout, fmt.Sprint(ignore), skip, knobCap, queueCap, failAt, consumer, car.Len())
	x.Note("layout_kinds", layout)
	x.Note("ignore", fmt.Sprint(ignore))
	x.Note("skip", skip)
	x.Note("knobs", map[string]int{"objectCap": knobCap, "flushQueue": queueCap})
	x.Note("read_error_at", failAt)
	x.Note("consumer", consumer)

	type gotObj struct {
		cid    cid.Cid
		offset uint64
		seclen uint64
		data   []byte // retained slice (not a copy)
		snap   []byte // copy at delivery time
	}
	type gotGroup struct {
		parent   *gotObj
		children []gotObj
		retained []ObjectWithMetadata
	}
	var got []gotGroup
	var runErr error
	returned := false
	overlap := false
	appendingConsumer := t.Bool(0.5)
	x.Sim(runner.SimOpts{Phase: "accum.Run", FaultsFlowing: false, Cfg: dsim.Config{MaxSteps: 400000, MaxSimTime: time.Hour}}, func() {
		s := dsim.Active()
		st := &c15stream{b: car.Bytes(), failAt: failAt, short: t.Bool(0.6)}
		rd, err := carreader.New(st)
		if err != nil {
			if failAt >= 0 {
				runErr = err
				returned = true
				return
			}
			s.Fail("oracle", "opening a well-formed CAR failed", err.Error())
		}
		inCb := false
		oa := NewObjectAccumulator(rd, iplddecoders.KindBlock, func(parent *ObjectWithMetadata, children []ObjectWithMetadata) error {
			if inCb {
				overlap = true
			}
			inCb = true
			g := gotGroup{retained: children}
			if parent != nil {
				g.parent = &gotObj{parent.Cid, parent.Offset, parent.SectionLength, parent.ObjectData, append([]byte(nil), parent.ObjectData...)}
			}
			for _, c := range children {
				g.children = append(g.children, gotObj{c.Cid, c.Offset, c.SectionLength, c.ObjectData, append([]byte(nil), c.ObjectData...)})
			}
			got = append(got, g)
			if parent != nil && appendingConsumer {
				// what split-car does with its arguments: the family is children + parent, appended
				// into whatever capacity the children slice has
				family := append(children, *parent)
				_ = family
			}
			switch consumer {
			case 1:
				for i := s.Tape().Intn(4); i > 0; i-- {
					s.Yield("consumer")
				}
			case 2:
				simtime.Sleep(time.Duration(1+s.Tape().Intn(50)) * time.Millisecond)
			case 3:
				if s.Tape().Bool(0.5) {
					simtime.Sleep(time.Millisecond)
				} else {
					s.Yield("consumer")
				}
			}
			inCb = false
			return nil
		}, ignore...)
		if skip > 0 {
			oa.SetSkip(uint64(skip))
		}
		runErr = oa.Run(context.Background())
		returned = true
	})
	if x.Failed() {
		return
	}
	if !returned {
		x.Failf("liveness", "Run did not return", "")
		return
	}
	if overlap {
		x.Failf("oracle", "callbacks overlapped", "")
		return
	}
	describe := func(gs []c15group) string {
		var sb strings.Builder
		for _, g := range gs {
			if g.parent != nil {
				fmt.Fprintf(&sb, "[block@%d +%d] ", g.parent.offset, len(g.children))
			} else {
				fmt.Fprintf(&sb, "[tail +%d] ", len(g.children))
			}
		}
		return sb.String()
	}
	describeGot := func() string {
		var sb strings.Builder
		for _, g := range got {
			if g.parent != nil {
				fmt.Fprintf(&sb, "[block@%d +%d] ", g.parent.offset, len(g.children))
			} else {
				fmt.Fprintf(&sb, "[tail +%d] ", len(g.children))
			}
		}
		return sb.String()
	}
	cmpObj := func(g *gotObj, w *c15obj) string {
		switch {
		case g.cid != w.cid:
			return "CID differs"
		case g.offset != w.offset:
			return fmt.Sprintf("offset %d, true offset %d", g.offset, w.offset)
		case g.seclen != w.seclen:
			return fmt.Sprintf("section length %d, true length %d", g.seclen, w.seclen)
		case !bytes.Equal(g.snap, w.data):
			return "object bytes differ"
		case !bytes.Equal(g.data, w.data):
			return "object bytes changed after the callback returned (buffer reuse)"
		}
		return ""
	}
	n := len(got)
	if runErr == nil {
		if failAt >= 0 && failAt < car.Len() {
			x.Failf("oracle", "Run reported success although reading the CAR failed", "read error injected at byte %d of %d; delivered %s", failAt, car.Len(), describeGot())
			return
		}
		if len(got) != len(want) {
			x.Failf("oracle", "wrong number of groups delivered", "got %d groups %s\nwant %d groups %s", len(got), describeGot(), len(want), describe(want))
			return
		}
	} else {
		if failAt < 0 {
			x.Failf("oracle", "Run failed on a well-formed CAR without a read error", "%v", runErr)
			return
		}
		// delivered groups must be a prefix of the reference (the last one may be a truncated tail group)
		if n > len(want) {
			x.Failf("oracle", "more groups delivered than the CAR holds", "got %s want %s", describeGot(), describe(want))
			return
		}
	}
	for i := 0; i < n; i++ {
		g, w := got[i], want[i]
		partialOK := runErr != nil && i == n-1 && g.parent == nil
		if (g.parent == nil) != (w.parent == nil) && !partialOK {
			x.Failf("oracle", "group delivered with the wrong parent", "group %d: got %s want %s", i, describeGot(), describe(want))
			return
		}
		if g.parent != nil && w.parent != nil {
			if d := cmpObj(g.parent, w.parent); d != "" {
				x.Failf("oracle", "a delivered block does not match the file: "+strings.SplitN(d, " ", 2)[0], "group %d parent: %s", i, d)
				return
			}
		}
		if len(g.children) != len(w.children) && !partialOK {
			x.Failf("oracle", "group delivered with the wrong set of objects", "group %d: %d children, want %d; got %s want %s", i, len(g.children), len(w.children), describeGot(), describe(want))
			return
		}
		for j := range g.children {
			if j >= len(w.children) {
				x.Failf("oracle", "group delivered with the wrong set of objects", "group %d has extra children", i)
				return
			}
			if d := cmpObj(&g.children[j], w.children[j]); d != "" {
				x.Failf("oracle", "a delivered object does not match the file: "+strings.SplitN(d, " ", 2)[0], "group %d child %d: %s", i, j, d)
				return
			}
			// the retained header slice must still describe the same objects
			if rc := g.retained[j]; rc.Cid != w.children[j].cid || rc.Offset != w.children[j].offset {
				x.Failf("oracle", "a children slice changed after the callback returned (buffer reuse)", "group %d child %d", i, j)
				return
			}
		}
	}
}
