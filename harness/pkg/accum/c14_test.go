package accum

import (
	"bytes"
	"context"
	"fmt"
	"hash/crc64"
	"hash/fnv"

	"dsim"
	"dsim/runner"

	"github.com/gagliardetto/solana-go"
	"github.com/ipfs/go-cid"
	"github.com/ipld/go-ipld-prime/codec/dagcbor"
	"github.com/ipld/go-ipld-prime/datamodel"
	cidlink "github.com/ipld/go-ipld-prime/linking/cid"
	"github.com/ipld/go-ipld-prime/node/bindnode"
	"github.com/rpcpool/yellowstone-faithful/ipld/ipldbindcode"
	"github.com/rpcpool/yellowstone-faithful/iplddecoders"
	"github.com/rpcpool/yellowstone-faithful/third_party/solana_proto/confirmed_block"
	"github.com/rpcpool/yellowstone-faithful/tooling"
	"google.golang.org/protobuf/proto"
)

// C14: multi-frame payloads reassemble to the original bytes or are rejected; fault
// enumeration over the frame store (every frame x every single fault).
func init() { runner.Register("C14", scenarioC14) }

type c14frame struct {
	idx  int
	data []byte
	next []int // indices of linked frames
	cid  cid.Cid
	enc  []byte
}

type c14chain struct {
	payload []byte
	frames  []*c14frame
	hash    *uint64
	total   bool
	salt    int
}

func pint(v int) **int { p := &v; return &p }

func c14encodeFrame(f *c14frame, ch *c14chain, all []*c14frame) {
	df := ipldbindcode.DataFrame{Kind: int(iplddecoders.KindDataFrame), Data: ipldbindcode.Buffer(f.data)}
	if df.Data == nil {
		df.Data = ipldbindcode.Buffer{}
	}
	if ch.hash != nil {
		df.Hash = pint(int(*ch.hash))
	}
	df.Index = pint(f.idx)
	if ch.total {
		df.Total = pint(len(ch.frames))
	}
	links := ipldbindcode.List__Link{}
	for _, n := range f.next {
		links = append(links, cidlink.Link{Cid: all[n].cid})
	}
	lp := &links
	df.Next = &lp
	node := bindnode.Wrap(&df, ipldbindcode.Prototypes.DataFrame.Type()).Representation()
	var buf bytes.Buffer
	if err := dagcbor.Encode(node, &buf); err != nil {
		panic(err)
	}
	f.enc = buf.Bytes()
	f.cid = c15cid(f.enc)
}

// c14build splits payload into n frames with the schema comment's layout: a frame links to up to
// fanout following frames and the last of those continues the chain.
func c14build(payload []byte, n, fanout int, checksum int, total bool, salt int) *c14chain {
	ch := &c14chain{payload: payload, total: total, salt: salt}
	switch checksum {
	case 1:
		h := crc64.Checksum(payload, crc64.MakeTable(crc64.ISO))
		ch.hash = &h
	case 2:
		f := fnv.New64a()
		f.Write(payload)
		h := f.Sum64()
		ch.hash = &h
	}
	if n < 1 {
		n = 1
	}
	chunk := (len(payload) + n - 1) / n
	if chunk == 0 {
		chunk = 1
	}
	for i := 0; i < n; i++ {
		lo, hi := i*chunk, (i+1)*chunk
		if lo > len(payload) {
			lo = len(payload)
		}
		if hi > len(payload) || i == n-1 {
			hi = len(payload)
		}
		ch.frames = append(ch.frames, &c14frame{idx: i, data: append([]byte{byte(salt)}[:0], payload[lo:hi]...)})
	}
	// links: holder h links to h+1..h+k (k<=fanout); the last linked frame becomes the next holder
	h := 0
	for h < n-1 {
		k := fanout
		if h+k > n-1 {
			k = n - 1 - h
		}
		for j := 1; j <= k; j++ {
			ch.frames[h].next = append(ch.frames[h].next, h+j)
		}
		h += k
	}
	// encode from the back so that CIDs of linked frames exist
	for i := n - 1; i >= 0; i-- {
		c14encodeFrame(ch.frames[i], ch, ch.frames)
	}
	return ch
}

type c14store struct {
	m       map[string][]byte
	fetches int
	limit   int
	alias   map[string]string // cid -> cid whose frame answers instead (duplicate)
	drop    string
}

func (st *c14store) get(ctx context.Context, want cid.Cid) (*ipldbindcode.DataFrame, error) {
	st.fetches++
	if st.fetches > st.limit {
		panic(c14runaway{})
	}
	k := want.String()
	if k == st.drop {
		return nil, fmt.Errorf("frame %s not found (injected)", k)
	}
	if a, ok := st.alias[k]; ok {
		k = a
	}
	b, ok := st.m[k]
	if !ok {
		return nil, fmt.Errorf("frame %s not found", k)
	}
	return iplddecoders.DecodeDataFrame(b)
}

type c14runaway struct{}

func scenarioC14(x *runner.X) {
	t := x.Tape
	r := t.SubRand()
	var size int
	switch t.Intn(5) {
	case 0:
		size = t.Range(0, 3)
	case 1:
		size = t.Range(1000, 200*1024)
	default:
		size = t.Range(4, 600)
	}
	payload := r.Bytes(size)
	n := t.Range(1, 12)
	if t.Bool(0.15) {
		n = t.Range(13, 60)
	}
	if n > size && size > 0 && t.Bool(0.8) {
		n = size
	}
	fanout := t.Range(1, 10)
	checksum := t.Pick(1, 1, 2, 0) // crc64, fnv (legacy), none
	total := checksum != 0 || t.Bool(0.5)
	guarded := checksum != 0 && total
	a := c14build(payload, n, fanout, checksum, total, 1)
	// a second payload of the same shape, for "frames of two payloads mixed"
	payloadB := r.Bytes(size)
	b := c14build(payloadB, n, fanout, checksum, total, 2)
	x.Digest(size, n, fanout, checksum, total)
	x.Note("payload_bytes", size)
	x.Note("frames", n)
	x.Note("fanout", fanout)
	x.Note("checksum", []string{"none", "crc64", "fnv-legacy"}[checksum])
	x.Note("carries_total", total)

	baseStore := func() *c14store {
		st := &c14store{m: map[string][]byte{}, limit: 50*n + 100, alias: map[string]string{}}
		for _, f := range a.frames[1:] {
			st.m[f.cid.String()] = f.enc
		}
		return st
	}
	first := func(ch *c14chain) *ipldbindcode.DataFrame {
		df, err := iplddecoders.DecodeDataFrame(ch.frames[0].enc)
		if err != nil {
			panic(fmt.Errorf("reference-encoded first frame rejected by the decoder: %w", err))
		}
		return df
	}
	var retained [][]byte // results of earlier fault-free reassemblies (the slices as returned)
	var retainedWant [][]byte
	checkRetained := func(after string) bool {
		for i := range retained {
			if !bytes.Equal(retained[i], retainedWant[i]) {
				return x.Failf("oracle", "bytes returned by an earlier reassembly changed afterwards (buffer reuse)", "after %s: result %d of %d bytes", after, i, len(retainedWant[i]))
			}
		}
		return false
	}
	run := func(name string, st *c14store, firstFrame *ipldbindcode.DataFrame, faulty bool) (stop bool) {
		var got []byte
		var err error
		runaway := false
		func() {
			defer func() {
				if rec := recover(); rec != nil {
					if _, ok := rec.(c14runaway); ok {
						runaway = true
						return
					}
					panic(rec)
				}
			}()
			got, err = tooling.LoadDataFromDataFrames(firstFrame, st.get)
		}()
		x.Probe("c14.cases")
		if faulty {
			x.Fault(name)
		}
		if runaway {
			return x.Failf("liveness", "reassembly does not terminate: "+name, "more than %d fetches for a chain of %d frames", st.limit, n)
		}
		if !faulty {
			if err != nil {
				return x.Failf("oracle", "fault-free reassembly failed", "%d bytes in %d frames fanout %d checksum %d: %v", size, n, fanout, checksum, err)
			}
			if !bytes.Equal(got, payload) {
				return x.Failf("oracle", "fault-free reassembly returned different bytes", "%d bytes in %d frames fanout %d: got %d bytes", size, n, fanout, len(got))
			}
			retained = append(retained, got)
			retainedWant = append(retainedWant, append([]byte(nil), payload...))
			return false
		}
		if checkRetained(name) {
			return true
		}
		if err == nil && !bytes.Equal(got, payload) && guarded {
			return x.Failf("oracle", "reassembly returned different bytes instead of an error: "+name,
				"payload %d bytes, %d frames, fanout %d, checksum %d; got %d bytes (first diff at %d)", size, n, fanout, checksum, len(got), firstDiff(got, payload))
		}
		return false
	}
	info := x.Sim(runner.SimOpts{Phase: "frames", Cfg: dsim.Config{MaxSteps: 1000}}, func() {})
	_ = info
	if run("none", baseStore(), first(a), false) {
		return
	}
	// storage/fetch order does not exist for a keyed store; exercise the in-CAR order through the accumulator below.
	for i := 1; i < n; i++ {
		fi := a.frames[i]
		// drop
		st := baseStore()
		st.drop = fi.cid.String()
		if run("frame-drop", st, first(a), true) {
			return
		}
		// duplicate: another frame answers for this CID
		j := 1 + (i % (n - 1))
		if n > 2 && j != i {
			st = baseStore()
			st.alias[fi.cid.String()] = a.frames[j].cid.String()
			if run("frame-duplicate", st, first(a), true) {
				return
			}
		}
		// bit flip in the data of the stored frame (re-encoded with the same links, served under the old CID)
		if len(fi.data) > 0 {
			st = baseStore()
			alt := *fi
			alt.data = append([]byte(nil), fi.data...)
			bit := r.Intn(len(alt.data) * 8)
			alt.data[bit/8] ^= 1 << uint(bit%8)
			c14encodeFrame(&alt, a, a.frames)
			st.m[fi.cid.String()] = alt.enc
			if run("frame-bitflip", st, first(a), true) {
				return
			}
		}
		// swap with the same-index frame of another payload
		st = baseStore()
		st.m[fi.cid.String()] = b.frames[i].enc
		for _, fb := range b.frames[1:] {
			st.m[fb.cid.String()] = fb.enc
		}
		if run("frame-swap-other-payload", st, first(a), true) {
			return
		}
		// index altered: frame i claims the index of another frame
		if n > 2 {
			st = baseStore()
			alt := *fi
			alt.idx = j
			c14encodeFrame(&alt, a, a.frames)
			st.m[fi.cid.String()] = alt.enc
			if run("frame-index-altered", st, first(a), true) {
				return
			}
		}
		// next link altered to point back at an earlier frame (cycle)
		if i >= 1 {
			st = baseStore()
			alt := *fi
			alt.next = []int{1}
			c14encodeFrame(&alt, a, a.frames)
			st.m[fi.cid.String()] = alt.enc
			if run("frame-next-cycle", st, first(a), true) {
				return
			}
		}
	}
	// every next list names each successor twice (frames of the chain are then reachable along many paths)
	if n > 2 {
		dbl := c14build(payload, n, fanout, checksum, total, 1)
		for i := n - 1; i >= 0; i-- {
			f := dbl.frames[i]
			var nn []int
			for _, k := range f.next {
				nn = append(nn, k, k)
			}
			f.next = nn
			c14encodeFrame(f, dbl, dbl.frames)
		}
		st := &c14store{m: map[string][]byte{}, limit: 50*n + 100, alias: map[string]string{}}
		for _, f := range dbl.frames[1:] {
			st.m[f.cid.String()] = f.enc
		}
		df, err := iplddecoders.DecodeDataFrame(dbl.frames[0].enc)
		if err == nil {
			if run("next-links-doubled", st, df, true) {
				return
			}
		}
	}
	// a second fault-free reassembly of another payload, then the first result must be unchanged
	{
		st := &c14store{m: map[string][]byte{}, limit: 50*n + 100, alias: map[string]string{}}
		for _, f := range b.frames[1:] {
			st.m[f.cid.String()] = f.enc
		}
		if got, err := tooling.LoadDataFromDataFrames(first(b), st.get); err == nil && bytes.Equal(got, payloadB) {
			if checkRetained("reassembling a second payload") {
				return
			}
		}
	}
	// faults in the first frame itself (it lives inside the transaction node)
	if len(a.frames[0].data) > 0 { // also when the payload is a single frame
		alt := *a.frames[0]
		alt.data = append([]byte(nil), alt.data...)
		alt.data[0] ^= 0x80
		c14encodeFrame(&alt, a, a.frames)
		df, err := iplddecoders.DecodeDataFrame(alt.enc)
		if err == nil {
			if run("first-frame-bitflip", baseStore(), df, true) {
				return
			}
		}
	}
	// the chain cut right behind the first frame: its link list is gone, hash and total still say
	// what the whole payload is
	if n > 1 {
		alt := *a.frames[0]
		alt.next = nil
		c14encodeFrame(&alt, a, a.frames)
		df, err := iplddecoders.DecodeDataFrame(alt.enc)
		if err == nil {
			if run("first-frame-links-dropped", baseStore(), df, true) {
				return
			}
		}
	}
	if c14viaAccumulator(x, r, t) {
		return
	}
}

func firstDiff(a, b []byte) int {
	for i := 0; i < len(a) && i < len(b); i++ {
		if a[i] != b[i] {
			return i
		}
	}
	if len(a) != len(b) {
		if len(a) < len(b) {
			return len(a)
		}
		return len(b)
	}
	return -1
}

// c14viaAccumulator drives accum.ObjectsToTransactionsAndMetadata: a transaction node whose metadata
// is split over several frames stored (in any order) before it, with one fault.
func c14viaAccumulator(x *runner.X, r *dsim.Rand, t *dsim.Tape) bool {
	// metadata: protobuf TransactionStatusMeta with distinctive log messages, zstd-compressed
	logs := []string{}
	nl := t.Range(1, 30)
	for i := 0; i < nl; i++ {
		logs = append(logs, fmt.Sprintf("Program log: %x", r.Bytes(t.Range(4, 40))))
	}
	meta := &confirmed_block.TransactionStatusMeta{Fee: uint64(5000 + r.Intn(1000)), LogMessages: logs, PreBalances: []uint64{10, 20}, PostBalances: []uint64{5, 25}}
	raw, err := proto.Marshal(meta)
	if err != nil {
		panic(err)
	}
	comp, err := tooling.CompressZstd(raw)
	if err != nil {
		panic(err)
	}
	n := t.Range(2, 9)
	if n > len(comp) {
		n = len(comp)
	}
	fanout := t.Range(1, 6)
	ch := c14build(comp, n, fanout, 1, true, 3)
	// transaction
	payer := solana.PublicKey{1, 2, 3}
	tx, err := solana.NewTransaction([]solana.Instruction{solana.NewInstruction(solana.PublicKey{9}, solana.AccountMetaSlice{solana.Meta(payer).WRITE().SIGNER()}, []byte{1, 2})}, solana.Hash{7}, solana.TransactionPayer(payer))
	if err != nil {
		panic(err)
	}
	var sig solana.Signature
	copy(sig[:], r.Bytes(64))
	tx.Signatures = []solana.Signature{sig}
	txBytes, err := tx.MarshalBinary()
	if err != nil {
		panic(err)
	}
	txHash := crc64.Checksum(txBytes, crc64.MakeTable(crc64.ISO))
	firstMeta, err := iplddecoders.DecodeDataFrame(ch.frames[0].enc)
	if err != nil {
		panic(err)
	}
	empty := ipldbindcode.List__Link{}
	ep := &empty
	txNode := ipldbindcode.Transaction{
		Kind:     int(iplddecoders.KindTransaction),
		Data:     ipldbindcode.DataFrame{Kind: int(iplddecoders.KindDataFrame), Hash: pint(int(txHash)), Index: pint(0), Total: pint(1), Data: txBytes, Next: &ep},
		Metadata: *firstMeta,
		Slot:     1234,
		Index:    pint(0),
	}
	var tb bytes.Buffer
	if err := dagcbor.Encode(bindnode.Wrap(&txNode, ipldbindcode.Prototypes.Transaction.Type()).Representation(), &tb); err != nil {
		panic(err)
	}
	mkObjs := func(frames []*c14frame, order []int) []ObjectWithMetadata {
		var objs []ObjectWithMetadata
		for _, i := range order {
			f := frames[i]
			objs = append(objs, ObjectWithMetadata{Cid: f.cid, ObjectData: f.enc})
		}
		objs = append(objs, ObjectWithMetadata{Cid: c15cid(tb.Bytes()), ObjectData: tb.Bytes(), Offset: 99, SectionLength: uint64(tb.Len() + 40)})
		return objs
	}
	order := t.Perm(n - 1)
	for i := range order {
		order[i]++
	}
	check := func(name string, objs []ObjectWithMetadata, faulty bool) bool {
		x.Probe("c14.cases")
		if faulty {
			x.Fault(name)
		}
		txs, err := ObjectsToTransactionsAndMetadata(&ipldbindcode.Block{}, objs)
		if err != nil {
			if !faulty {
				return x.Failf("oracle", "fault-free metadata reassembly through the accumulator failed", "%d frames fanout %d order %v: %v", n, fanout, order, err)
			}
			return false
		}
		if len(txs) != 1 {
			return x.Failf("oracle", "accumulator returned a wrong number of transactions", "%d", len(txs))
		}
		got := txs[0].Metadata
		if txs[0].Error != nil || got == nil {
			if !faulty {
				return x.Failf("oracle", "fault-free metadata did not parse", "%v", txs[0].Error)
			}
			return false
		}
		if fmt.Sprint(got.GetProtobuf().GetLogMessages()) != fmt.Sprint(logs) || got.GetProtobuf().GetFee() != meta.Fee {
			return x.Failf("oracle", "accumulator returned different metadata instead of an error: "+name, "%d frames fanout %d order %v", n, fanout, order)
		}
		return false
	}
	if check("none", mkObjs(ch.frames, order), false) {
		return true
	}
	if n > 2 {
		// drop one frame
		k := t.Intn(len(order))
		dropped := append(append([]int(nil), order[:k]...), order[k+1:]...)
		if check("frame-drop", mkObjs(ch.frames, dropped), true) {
			return true
		}
	}
	// flip a bit in one stored frame (kept under its CID)
	k := 1 + t.Intn(n-1)
	if len(ch.frames[k].data) > 0 {
		alt := *ch.frames[k]
		alt.data = append([]byte(nil), alt.data...)
		alt.data[len(alt.data)/2] ^= 4
		oldCid := alt.cid
		c14encodeFrame(&alt, ch, ch.frames)
		alt.cid = oldCid
		frames := append([]*c14frame(nil), ch.frames...)
		frames[k] = &alt
		if check("frame-bitflip", mkObjs(frames, order), true) {
			return true
		}
	}
	return false
}

var _ datamodel.Link = cidlink.Link{}
