package indexes

import (
	"bytes"
	"context"
	"errors"
	"fmt"
	"io"
	"os"
	"path/filepath"
	"sort"
	"testing"

	"dsim"
	"dsim/runner"

	"github.com/gagliardetto/solana-go"
	"github.com/ipfs/go-cid"
	"github.com/multiformats/go-multihash"
	"github.com/rpcpool/yellowstone-faithful/compactindexsized"
)

func TestVerif(t *testing.T) { runner.Main() }

// C13 (compact-index kinds): a file cut short at any byte offset answers every stored key with the
// same answer as the complete file, or with an error — never "not found" or another value.
func init() { runner.Register("C13I", scenarioC13I) }

type c13cut struct {
	b          []byte
	eofVariant bool
}

func (r *c13cut) ReadAt(p []byte, off int64) (int, error) {
	if off < 0 {
		return 0, errors.New("negative offset")
	}
	if off >= int64(len(r.b)) {
		return 0, io.EOF
	}
	n := copy(p, r.b[off:])
	if n < len(p) {
		return n, io.EOF
	}
	if r.eofVariant && off+int64(n) == int64(len(r.b)) {
		return n, io.EOF
	}
	return n, nil
}
func (r *c13cut) Close() error { return nil }

func c13cid(b []byte) cid.Cid {
	mh, _ := multihash.Sum(b, multihash.SHA2_256, -1)
	return cid.NewCidV1(cid.DagCBOR, mh)
}

// cutOffsets: every offset for small files, else structure boundaries +-2 and a random sample.
func c13cutOffsets(size int, boundaries []int, r *dsim.Rand, exhaustiveBelow int) ([]int, bool) {
	if size <= exhaustiveBelow {
		out := make([]int, size)
		for i := range out {
			out[i] = i
		}
		return out, true
	}
	set := map[int]bool{}
	for _, b := range boundaries {
		for d := -2; d <= 2; d++ {
			if k := b + d; k >= 0 && k < size {
				set[k] = true
			}
		}
	}
	for i := 0; i < 300; i++ {
		set[r.Intn(size)] = true
	}
	var out []int
	for k := range set {
		out = append(out, k)
	}
	sort.Ints(out)
	return out, false
}

func scenarioC13I(x *runner.X) {
	t := x.Tape
	r := t.SubRand()
	kind := t.Intn(4)
	prefetch := t.Bool(0.4) // what the server sets for index files opened over http(s)
	if prefetch {
		x.Probe("c13.prefetch")
	}
	n := t.Range(1, 40)
	bucketKnob := t.Pick(4, 16, 10000)
	if kind == 3 {
		bucketKnob = 10000 // this writer declares 1 000 000 items: small buckets would mean 250 000 spill files
	}
	dsim.SetKnobs(map[string]int{"compactindex.targetEntriesPerBucket": bucketKnob})
	eofVariant := t.Bool(0.5)
	root := c13cid([]byte("root"))
	dir := x.TempDir()
	tmp := filepath.Join(dir, "tmp")
	os.MkdirAll(tmp, 0o755)
	ctx := context.Background()
	x.Digest(kind, n, bucketKnob, eofVariant)
	kindName := []string{"cid-to-offset-and-size", "slot-to-cid", "sig-to-cid", "pubkey-to-offset-and-size"}[kind]
	x.Note("index_kind", kindName)
	x.Note("keys", n)
	x.Note("entries_per_bucket_knob", bucketKnob)

	// build + the two closures: open(reader) -> lookup(i) (string answer, error)
	type opened struct {
		get   func(i int) (string, error)
		close func()
	}
	var open func(rd ReaderAtCloser) (*opened, error)
	var path string
	switch kind {
	case 0:
		w, err := NewWriter_CidToOffsetAndSize(5, root, NetworkMainnet, tmp, uint64(n))
		if err != nil {
			x.Failf("harness", "writer", "%v", err)
			return
		}
		keys := make([]cid.Cid, n)
		for i := range keys {
			keys[i] = c13cid(r.Bytes(16))
			if err := w.Put(keys[i], r.Uint64()>>16, 1+r.Uint64()%100000); err != nil {
				x.Failf("harness", "put", "%v", err)
				return
			}
		}
		if err := w.Seal(ctx, dir); err != nil {
			x.Failf("harness", "seal", "%v", err)
			return
		}
		path = w.GetFilepath()
		w.Close()
		open = func(rd ReaderAtCloser) (*opened, error) {
			ix, err := OpenWithReader_CidToOffsetAndSize(rd)
			if err != nil {
				return nil, err
			}
			ix.Prefetch(prefetch)
			return &opened{get: func(i int) (string, error) {
				v, err := ix.Get(keys[i])
				if err != nil {
					return "", err
				}
				return fmt.Sprint(*v), nil
			}}, nil
		}
	case 1:
		w, err := NewWriter_SlotToCid(5, root, NetworkMainnet, tmp, uint64(n))
		if err != nil {
			x.Failf("harness", "writer", "%v", err)
			return
		}
		keys := make([]uint64, n)
		for i := range keys {
			keys[i] = 5*432000 + uint64(i*7+r.Intn(7))
			if err := w.Put(keys[i], c13cid(r.Bytes(16))); err != nil {
				x.Failf("harness", "put", "%v", err)
				return
			}
		}
		if err := w.Seal(ctx, dir); err != nil {
			x.Failf("harness", "seal", "%v", err)
			return
		}
		path = w.GetFilepath()
		w.Close()
		open = func(rd ReaderAtCloser) (*opened, error) {
			ix, err := OpenWithReader_SlotToCid(rd)
			if err != nil {
				return nil, err
			}
			ix.Prefetch(prefetch)
			return &opened{get: func(i int) (string, error) {
				v, err := ix.Get(keys[i])
				if err != nil {
					return "", err
				}
				return v.String(), nil
			}}, nil
		}
	case 2:
		w, err := NewWriter_SigToCid(5, root, NetworkMainnet, tmp, uint64(n))
		if err != nil {
			x.Failf("harness", "writer", "%v", err)
			return
		}
		keys := make([]solana.Signature, n)
		for i := range keys {
			copy(keys[i][:], r.Bytes(64))
			if err := w.Put(keys[i], c13cid(r.Bytes(16))); err != nil {
				x.Failf("harness", "put", "%v", err)
				return
			}
		}
		if err := w.Seal(ctx, dir); err != nil {
			x.Failf("harness", "seal", "%v", err)
			return
		}
		path = w.GetFilepath()
		w.Close()
		open = func(rd ReaderAtCloser) (*opened, error) {
			ix, err := OpenWithReader_SigToCid(rd)
			if err != nil {
				return nil, err
			}
			ix.Prefetch(prefetch)
			return &opened{get: func(i int) (string, error) {
				v, err := ix.Get(keys[i])
				if err != nil {
					return "", err
				}
				return v.String(), nil
			}}, nil
		}
	default:
		w, err := NewWriter_PubkeyToOffsetAndSize(5, root, NetworkMainnet, tmp)
		if err != nil {
			x.Failf("harness", "writer", "%v", err)
			return
		}
		keys := make([]solana.PublicKey, n)
		for i := range keys {
			copy(keys[i][:], r.Bytes(32))
			if err := w.Put(keys[i], r.Uint64()>>16, 1+r.Uint64()%100000); err != nil {
				x.Failf("harness", "put", "%v", err)
				return
			}
		}
		if err := w.Seal(ctx, dir); err != nil {
			x.Failf("harness", "seal", "%v", err)
			return
		}
		path = w.GetFilepath()
		w.Close()
		open = func(rd ReaderAtCloser) (*opened, error) {
			ix, err := OpenWithReader_PubkeyToOffsetAndSize(rd)
			if err != nil {
				return nil, err
			}
			ix.Prefetch(prefetch)
			return &opened{get: func(i int) (string, error) {
				v, err := ix.Get(keys[i])
				if err != nil {
					return "", err
				}
				return fmt.Sprint(*v), nil
			}}, nil
		}
	}
	full, err := os.ReadFile(path)
	if err != nil {
		x.Failf("harness", "read", "%v", err)
		return
	}
	base, err := open(&c13cut{b: full, eofVariant: eofVariant})
	if err != nil {
		x.Failf("oracle", "the complete index cannot be opened", "%s: %v", kindName, err)
		return
	}
	want := make([]string, n)
	for i := range want {
		want[i], err = base.get(i)
		if err != nil {
			x.Failf("oracle", "the complete index does not answer a stored key", "%s: %v", kindName, err)
			return
		}
	}
	// structure boundaries for large files: header end is unknown to the harness without mirroring the
	// format; use the positions where the answer set changes, found by bisection-free sampling instead.
	cuts, exhaustive := c13cutOffsets(len(full), []int{12, len(full) / 2, len(full) - 1}, r, 6000)
	if exhaustive {
		x.Probe("c13.every-offset")
	}
	for _, k := range cuts {
		x.Probe("c13.cuts")
		x.Fault("truncate")
		ix, err := open(&c13cut{b: full[:k], eofVariant: eofVariant})
		if err != nil {
			continue // fails loudly at open: fine
		}
		for i := 0; i < 2*n; i++ { // every key twice through the same reader
			i := i % n
			got, err := ix.get(i)
			if err != nil {
				if compactindexsized.IsNotFound(err) {
					if x.Failf("oracle", "a truncated index answers 'not found' for a stored key", "%s cut at byte %d of %d (%d keys, %d per bucket): key %d", kindName, k, len(full), n, bucketKnob, i) {
						return
					}
				}
				continue
			}
			if got != want[i] {
				if x.Failf("oracle", "a truncated index answers a stored key with a different value", "%s cut at byte %d of %d: key %d got %s want %s", kindName, k, len(full), i, got, want[i]) {
					return
				}
			}
		}
	}
	_ = bytes.Equal
}
