package bucketteer

import (
	"fmt"
	"os"
	"path/filepath"
	"sort"

	"dsim"
	"dsim/runner"

	"github.com/rpcpool/yellowstone-faithful/indexmeta"
)

// C13 (sig-exists): a truncated file never turns a stored signature into "absent".
func init() { runner.Register("C13B", scenarioC13B) }

func scenarioC13B(x *runner.X) {
	t := x.Tape
	r := t.SubRand()
	dsim.SetKnobs(map[string]int{"bucketteer.prealloc": 4})
	n := t.Range(1, 40)
	var sigs [][64]byte
	for i := 0; i < n; i++ {
		var s [64]byte
		copy(s[:], r.Bytes(64))
		switch t.Intn(4) {
		case 0:
			s[0], s[1] = 0xff, 0xff
		case 1:
			s[0], s[1] = 0, 0
		}
		sigs = append(sigs, s)
	}
	path := filepath.Join(x.TempDir(), "sig-exists")
	w, err := NewWriter(path)
	if err != nil {
		x.Failf("harness", "writer", "%v", err)
		return
	}
	for _, s := range sigs {
		w.Put(s)
	}
	if _, err := w.Seal(indexmeta.Meta{}); err != nil {
		x.Failf("harness", "seal", "%v", err)
		return
	}
	w.Close()
	full, err := os.ReadFile(path)
	if err != nil {
		x.Failf("harness", "read", "%v", err)
		return
	}
	eofVariant := t.Bool(0.5)
	x.Digest(n, eofVariant, len(full))
	x.Note("signatures", n)
	x.Note("file_bytes", len(full))
	base, err := NewReader(&c05ReaderAt{b: full, eofVariant: eofVariant})
	if err != nil {
		x.Failf("oracle", "the complete sig-exists file cannot be opened", "%v", err)
		return
	}
	for _, s := range sigs {
		if ok, err := base.Has(s); err != nil || !ok {
			x.Failf("oracle", "the complete sig-exists file does not report an added signature", "%v %v", ok, err)
			return
		}
	}
	// cut offsets: the start of the file, the region around where the header ends and the buckets
	// begin (found as the first offset at which opening succeeds), the file end, and a random sample
	set := map[int]bool{}
	for k := 0; k < 40; k++ {
		set[k] = true
	}
	lo, hi := 0, len(full)
	for lo < hi { // smallest cut at which the header parses
		mid := (lo + hi) / 2
		if _, err := NewReader(&c05ReaderAt{b: full[:mid]}); err != nil {
			lo = mid + 1
		} else {
			hi = mid
		}
	}
	for d := -6; d <= 40; d++ {
		if k := lo + d; k >= 0 && k < len(full) {
			set[k] = true
		}
	}
	for d := 1; d <= 40; d++ {
		set[len(full)-d] = true
	}
	for i := 0; i < 80; i++ {
		set[lo+r.Intn(len(full)-lo)] = true
	}
	var cuts []int
	for k := range set {
		cuts = append(cuts, k)
	}
	sort.Ints(cuts)
	for _, k := range cuts {
		x.Probe("c13.cuts")
		x.Fault("truncate")
		rd, err := NewReader(&c05ReaderAt{b: full[:k], eofVariant: eofVariant})
		if err != nil {
			continue
		}
		// twice through the same Reader: what an earlier failed lookup left behind in the reader
		// must not turn a later one into "absent"
		for round := 0; round < 2; round++ {
			for _, s := range sigs {
				ok, err := rd.Has(s)
				if err != nil {
					continue
				}
				if !ok {
					if x.Failf("oracle", "a truncated sig-exists file reports a stored signature as absent", "cut at byte %d of %d (header parses from %d), lookup round %d: prefix %x", k, len(full), lo, round, s[:2]) {
						return
					}
				}
			}
		}
	}
	_ = fmt.Sprint
}
