package main

import (
	"bytes"
	"context"
	"dsim/simos"
	"encoding/binary"
	"fmt"
	"github.com/rpcpool/yellowstone-faithful/compactindexsized"
	"io"
	"os"
	"path/filepath"
	"runtime"
	"strconv"
	"strings"
	"time"

	"dsim"
	"dsim/runner"

	"github.com/gagliardetto/solana-go"
	"github.com/ipfs/go-cid"
	"github.com/rpcpool/yellowstone-faithful/blocktimeindex"
	"github.com/rpcpool/yellowstone-faithful/bucketteer"
	"github.com/rpcpool/yellowstone-faithful/carreader"
	"github.com/rpcpool/yellowstone-faithful/gsfa"
	"github.com/rpcpool/yellowstone-faithful/gsfa/manifest"
	"github.com/rpcpool/yellowstone-faithful/indexes"
	"github.com/rpcpool/yellowstone-faithful/indexmeta"
	"github.com/rpcpool/yellowstone-faithful/ipld/ipldbindcode"
	"github.com/rpcpool/yellowstone-faithful/iplddecoders"
	solanatxmetaparsers "github.com/rpcpool/yellowstone-faithful/solana-tx-meta-parsers"
	"github.com/rpcpool/yellowstone-faithful/tooling"
	"github.com/rpcpool/yellowstone-faithful/zzverif/world"
)

// C12: parsers of external data return errors, never crash, on corrupted stored bytes.
func init() { runner.Register("C12", scenarioC12) }

func c12mk(id int) (world.Params, uint64) {
	return world.Params{Epoch: uint64(30 + id), Salt: uint64(1200 + id), NumBlocks: 3 + id, MaxEntries: 2, MaxTxPerEntry: 3, NumAccounts: 8, MaxFrameBytes: []int{120, 60, 400}[id%3]}, uint64(1212 + id)
}

// c12corrupt applies one stored-byte corruption drawn from the tape and describes it.
func c12corrupt(t *dsim.Tape, r *dsim.Rand, in []byte) ([]byte, string) {
	b := append([]byte(nil), in...)
	if len(b) == 0 {
		return r.Bytes(t.Range(1, 16)), "empty input replaced by random bytes"
	}
	pos := t.Intn(len(b))
	if t.Bool(0.5) { // headers, counts and lengths live at the front
		pos = t.Intn(mini(len(b), 96))
	}
	if t.Bool(0.25) {
		// embedded zstd frames (linked-log records, stored metadata and rewards): aim at the frame
		// header that follows the magic number, where content and window sizes are declared
		var frames []int
		for i := 0; i+4 <= len(b) && len(frames) < 64; i++ {
			if b[i] == 0x28 && b[i+1] == 0xb5 && b[i+2] == 0x2f && b[i+3] == 0xfd {
				frames = append(frames, i)
			}
		}
		if len(frames) > 0 {
			f := frames[t.Intn(len(frames))]
			if p := f + 4 + t.Intn(9); p < len(b) {
				pos = p
			}
			if f+4 < len(b) && t.Bool(0.5) {
				// the frame header descriptor: its two top bits select the width of the declared content size
				m := []byte{0x80, 0x40, 0xc0}[t.Intn(3)]
				b[f+4] ^= m
				return b, fmt.Sprintf("zstd frame at %d: header descriptor byte xor %#x", f, m)
			}
		}
	}
	switch t.Intn(9) {
	case 0:
		bit := uint(t.Intn(8))
		b[pos] ^= 1 << bit
		return b, fmt.Sprintf("bit %d of byte %d flipped", bit, pos)
	case 1:
		// (36..38: a CAR section length that leaves 0..2 bytes behind the 36-byte CID)
		v := []byte{0x00, 0x01, 0xff, 0x7f, 0x80, 0x9f, 0xbf, 0x5b, 0x1b, 36, 37, 38}[t.Intn(12)]
		b[pos] = v
		return b, fmt.Sprintf("byte %d set to %#x", pos, v)
	case 2: // a 4-byte little-endian field
		w := t.Pick(0, 1, 0xffffffff, 0x7fffffff, len(b)+1, len(b)*8)
		if pos+4 <= len(b) {
			binary.LittleEndian.PutUint32(b[pos:], uint32(w))
		}
		return b, fmt.Sprintf("u32le at %d set to %d", pos, uint32(w))
	case 3: // an 8-byte field
		w := []uint64{0, 1, ^uint64(0), 1 << 62, uint64(len(b)) + 1, 1 << 40}[t.Intn(6)]
		if pos+8 <= len(b) {
			if t.Bool(0.5) {
				binary.LittleEndian.PutUint64(b[pos:], w)
			} else {
				binary.BigEndian.PutUint64(b[pos:], w)
			}
		}
		return b, fmt.Sprintf("u64 at %d set to %d", pos, w)
	case 4:
		return b[:pos], fmt.Sprintf("cut at %d of %d", pos, len(b))
	case 5:
		n := mini(t.Range(1, 64), len(b)-pos)
		for i := 0; i < n; i++ {
			b[pos+i] = 0
		}
		return b, fmt.Sprintf("%d bytes zeroed at %d", n, pos)
	case 6: // splice a range from elsewhere
		n := mini(t.Range(1, 64), len(b)-pos)
		src := t.Intn(len(b) - n + 1)
		copy(b[pos:pos+n], in[src:src+n])
		return b, fmt.Sprintf("%d bytes at %d replaced by the bytes at %d", n, pos, src)
	case 7:
		n := mini(t.Range(1, 32), len(b)-pos)
		copy(b[pos:], r.Bytes(n))
		return b, fmt.Sprintf("%d random bytes at %d", n, pos)
	default: // a varint made long
		n := mini(t.Range(1, 10), len(b)-pos)
		for i := 0; i < n; i++ {
			b[pos+i] = 0xff
		}
		return b, fmt.Sprintf("%d bytes of 0xff at %d", n, pos)
	}
}

func scenarioC12(x *runner.X) {
	t := x.Tape
	r := t.SubRand()
	engineKnobs(nil)
	pw, err := getPooledWorld("c12", t.Intn(3), c12mk, true)
	if err != nil {
		x.Failf("harness", "cannot build the pooled world", "%v", err)
		return
	}
	w := pw.w
	set, err := c10setFromDir(&builtWorld{w: w, dir: pw.dir})
	if err != nil {
		x.Failf("harness", "file set", "%v", err)
		return
	}
	target := 0
	switch u := t.Intn(100); {
	case u == 0:
		target = 8 // a whole sweep per run: rare
	case u <= 3:
		target = 9
	case u <= 6:
		target = 10
	default:
		target = (u - 4) % 8
	}
	if v, err := strconv.Atoi(os.Getenv("VERIF_C12_TARGET")); err == nil && v >= 0 && v <= 10 {
		target = v // debugging switch: one target only
	}
	names := []string{"ipld-node", "car-stream", "compact-index", "sig-exists", "slot-to-blocktime", "gsfa-files", "tx-metadata", "epoch-load-and-query", "header-field-sweep", "frame-dag", "ill-typed-metadata"}
	x.Note("target", names[target])
	desc := ""
	var inputLen int
	ctx := context.Background()
	// run executes the reading path under a panic trap and an allocation meter
	queries := 0
	run := func(what string, n int, fn func()) bool {
		inputLen = n
		var before, after runtime.MemStats
		runtime.ReadMemStats(&before)
		var pv any
		var stack string
		func() {
			defer func() {
				if p := recover(); p != nil {
					pv = p
					buf := make([]byte, 8192)
					stack = string(buf[:runtime.Stack(buf, false)])
				}
			}()
			fn()
		}()
		runtime.ReadMemStats(&after)
		x.Probe("c12.cases")
		x.Fault("corrupt")
		if pv != nil {
			return x.Failf("panic", "corrupted "+names[target]+": panic in "+c12top(stack), "%s; %s\n%v\n%s", what, desc, pv, clipS(stack, 1800))
		}
		// a CAR section is read with the size its index entry records, which the format caps at 16 MiB
		// (3-byte size field): allow that much per server query on top of the general ceiling
		if grown := after.TotalAlloc - before.TotalAlloc; grown > uint64(64*n)+64<<20+uint64(queries)*(32<<20) {
			return x.Failf("oracle", "corrupted "+names[target]+": memory allocated out of proportion to the input", "%s; %s: %d bytes allocated for %d bytes of input", what, desc, grown, n)
		}
		return false
	}
	x.Sim(runner.SimOpts{Phase: "corrupt", Cfg: dsim.Config{MaxSteps: 50000000, MaxSimTime: 1000 * time.Hour, NoTimerRace: true}}, func() {
		switch target {
		case 0:
			o := w.Objects[t.Intn(len(w.Objects))]
			var bad []byte
			bad, desc = c12corrupt(t, r, o.Data)
			desc = world.KindName(o.Kind) + " node: " + desc
			run("decode", len(bad), func() {
				if tx, err := iplddecoders.DecodeTransaction(bad); err == nil {
					tx.GetSolanaTransaction()
					tx.Signature()
					tooling.LoadDataFromDataFrames(&tx.Metadata, func(ctx context.Context, c cid.Cid) (*ipldbindcode.DataFrame, error) {
						if oo := w.ObjectByCid(c); oo != nil {
							return iplddecoders.DecodeDataFrame(oo.Data)
						}
						return nil, fmt.Errorf("no such frame")
					})
				}
				if b, err := iplddecoders.DecodeBlock(bad); err == nil {
					b.GetBlockHeight()
				}
				iplddecoders.DecodeEntry(bad)
				iplddecoders.DecodeSubset(bad)
				iplddecoders.DecodeEpoch(bad)
				if rw, err := iplddecoders.DecodeRewards(bad); err == nil {
					rw.Data.Bytes()
				}
				if df, err := iplddecoders.DecodeDataFrame(bad); err == nil {
					df.GetNext()
					df.GetHash()
				}
			})
		case 1:
			var bad []byte
			bad, desc = c12corrupt(t, r, w.CAR)
			desc = "CAR: " + desc
			carFile := filepath.Join(x.TempDir(), "corrupt.car")
			os.WriteFile(carFile, bad, 0o644)
			run("index-all object count", len(bad), func() {
				carCountItemsByFirstByte(carFile) // the first pass of `index all` over the CAR
			})
			run("carreader", len(bad), func() {
				rd, err := carreader.New(io.NopCloser(bytes.NewReader(bad)))
				if err != nil {
					return
				}
				rd.HeaderSize()
				for i := 0; i < len(w.Objects)+10; i++ {
					if _, _, _, err := rd.NextNodeBytes(); err != nil {
						return
					}
				}
			})
		case 2:
			role := []string{"cid_to_offset_and_size", "slot_to_cid", "sig_to_cid"}[t.Intn(3)]
			full, _ := os.ReadFile(set.files[role])
			var bad []byte
			bad, desc = c12corrupt(t, r, full)
			prefetch := t.Bool(0.5) // the server turns prefetching on for indexes opened over http(s)
			desc = fmt.Sprintf("%s index (prefetch %v): %s", role, prefetch, desc)
			run("open+lookup", len(bad), func() {
				rd := &c12ra{b: bad}
				switch role {
				case "cid_to_offset_and_size":
					ix, err := indexes.OpenWithReader_CidToOffsetAndSize(rd)
					if err != nil {
						return
					}
					ix.Prefetch(prefetch)
					ix.Meta()
					for _, o := range w.Objects {
						ix.Get(o.Cid)
					}
				case "slot_to_cid":
					ix, err := indexes.OpenWithReader_SlotToCid(rd)
					if err != nil {
						return
					}
					ix.Prefetch(prefetch)
					for _, b := range w.Blocks {
						ix.Get(b.Slot)
					}
					ix.Get(w.FirstSlot + 12345)
				default:
					ix, err := indexes.OpenWithReader_SigToCid(rd)
					if err != nil {
						return
					}
					ix.Prefetch(prefetch)
					for _, tx := range w.Txs {
						ix.Get(tx.Sig())
					}
				}
			})
		case 3:
			full, _ := os.ReadFile(set.files["sig_exists"])
			var bad []byte
			bad, desc = c12corrupt(t, r, full)
			desc = "sig-exists: " + desc
			run("open+has", len(bad), func() {
				rd, err := bucketteer.NewReader(&c12ra{b: bad})
				if err != nil {
					return
				}
				rd.Meta()
				for _, tx := range w.Txs {
					rd.Has(tx.Sig())
				}
			})
		case 4:
			full, _ := os.ReadFile(set.files["slot_to_blocktime"])
			var bad []byte
			bad, desc = c12corrupt(t, r, full)
			desc = "slot-to-blocktime: " + desc
			run("decode+get", len(bad), func() {
				ix, err := blocktimeindex.FromBytes(bad)
				if err != nil {
					return
				}
				for _, b := range w.Blocks {
					ix.Get(b.Slot)
				}
			})
		case 5:
			files, _ := os.ReadDir(set.files["gsfa"])
			fe := files[t.Intn(len(files))]
			full, _ := os.ReadFile(filepath.Join(set.files["gsfa"], fe.Name()))
			var bad []byte
			bad, desc = c12corrupt(t, r, full)
			desc = "gsfa " + fe.Name() + ": " + desc
			dir := filepath.Join(x.TempDir(), "gsfa")
			os.MkdirAll(dir, 0o755)
			for _, o := range files {
				b, _ := os.ReadFile(filepath.Join(set.files["gsfa"], o.Name()))
				if o.Name() == fe.Name() {
					b = bad
				}
				os.WriteFile(filepath.Join(dir, o.Name()), b, 0o644)
			}
			run("open+get", len(bad), func() {
				rd, err := gsfa.NewGsfaReader(dir)
				if err != nil {
					return
				}
				defer rd.Close()
				rd.Meta()
				rd.Version()
				for _, a := range w.Addresses {
					rd.Get(ctx, a, 1000)
				}
				var ghost solana.PublicKey
				rd.Get(ctx, ghost, 10)
				if strings.Contains(fe.Name(), "manifest") {
					if m, err := manifest.NewManifest(filepath.Join(dir, fe.Name()), indexmeta.Meta{}); err == nil {
						m.ReadAll()
						m.Close()
					}
				}
			})
		case 6:
			tx := w.Txs[t.Intn(len(w.Txs))]
			src := tx.Meta
			which := "uncompressed"
			if t.Bool(0.4) {
				src = tx.MetaStored
				which = "stored (zstd)"
			}
			var bad []byte
			bad, desc = c12corrupt(t, r, src)
			desc = which + " transaction metadata: " + desc
			run("parse", len(bad), func() {
				in := bad
				if which != "uncompressed" {
					d, err := tooling.DecompressZstd(bad)
					if err != nil {
						return
					}
					in = d
				}
				solanatxmetaparsers.ParseAnyTransactionStatusMeta(in)
				if c, err := solanatxmetaparsers.ParseTransactionStatusMetaContainer(in); err == nil && c != nil {
					c.GetLoadedAccounts()
				}
				var m indexmeta.Meta
				m.UnmarshalBinary(bad)
			})
		case 8:
			// every offset of the file's head x every width/byte order x every special value (powers
			// of two around the overflow points of size computations included): one run enumerates
			// the whole set for one file kind
			role := []string{"cid_to_offset_and_size", "slot_to_cid", "sig_to_cid", "sig_exists", "slot_to_blocktime"}[t.Intn(5)]
			full, _ := os.ReadFile(set.files[role])
			desc = role + ": header-field sweep"
			open := func(bad []byte) {
				rd := &c12ra{b: bad}
				switch role {
				case "cid_to_offset_and_size":
					if ix, err := indexes.OpenWithReader_CidToOffsetAndSize(rd); err == nil {
						ix.Meta()
						for _, o := range w.Objects { // all of them: a changed stride leaves few keys findable
							ix.Get(o.Cid)
						}
					}
				case "slot_to_cid":
					if ix, err := indexes.OpenWithReader_SlotToCid(rd); err == nil {
						for _, b := range w.Blocks {
							ix.Get(b.Slot)
						}
						ix.Get(w.FirstSlot + 12345)
					}
				case "sig_to_cid":
					if ix, err := indexes.OpenWithReader_SigToCid(rd); err == nil {
						for _, tx := range w.Txs {
							ix.Get(tx.Sig())
						}
					}
				case "sig_exists":
					if rd, err := bucketteer.NewReader(rd); err == nil {
						rd.Meta()
						rd.Has(w.Txs[0].Sig())
						rd.Has(w.Txs[len(w.Txs)-1].Sig())
					}
				default:
					if ix, err := blocktimeindex.FromBytes(bad); err == nil {
						ix.Get(w.Blocks[0].Slot)
						ix.Get(w.Blocks[len(w.Blocks)-1].Slot)
					}
				}
			}
			v64 := []uint64{1 << 62, 1 << 63, 1<<62 + 1, 1<<62 + 2, 1 << 61, 1<<63 + 1, ^uint64(0), 1 << 32, 1<<64 - 4}
			v32 := []uint32{1 << 30, 1 << 31, 1<<30 + 1, 1<<31 + 1, ^uint32(0)}
			head := mini(len(full), 80)
		sweep:
			for pos := 0; pos < head; pos++ {
				// one-byte fields (value size, hash length, kind tags): both ends of the byte range
				for _, v := range []byte{0, 1, 2, 3, 4, 0x7f, 0x80, 0xfb, 0xfc, 0xfd, 0xfe, 0xff} {
					if full[pos] == v {
						continue
					}
					bad := append([]byte(nil), full...)
					bad[pos] = v
					if run(fmt.Sprintf("byte at %d = %#x", pos, v), len(bad), func() { open(bad) }) {
						break sweep
					}
				}
				for _, be := range []bool{false, true} {
					for _, v := range v64 {
						if pos+8 > len(full) {
							continue
						}
						bad := append([]byte(nil), full...)
						if be {
							binary.BigEndian.PutUint64(bad[pos:], v)
						} else {
							binary.LittleEndian.PutUint64(bad[pos:], v)
						}
						if run(fmt.Sprintf("u64 at %d = %#x (big endian: %v)", pos, v, be), len(bad), func() { open(bad) }) {
							break sweep
						}
					}
					for _, v := range v32 {
						if pos+4 > len(full) {
							continue
						}
						bad := append([]byte(nil), full...)
						if be {
							binary.BigEndian.PutUint32(bad[pos:], v)
						} else {
							binary.LittleEndian.PutUint32(bad[pos:], v)
						}
						if run(fmt.Sprintf("u32 at %d = %#x (big endian: %v)", pos, v, be), len(bad), func() { open(bad) }) {
							break sweep
						}
					}
				}
			}
		case 9:
			// a multi-node corruption: data frames whose `next` lists name the same successor twice, to
			// a depth at which a reassembly that follows every link would do exponential work. The
			// answer must be an error (or the payload) after work proportional to the number of frames.
			depth := t.Range(18, 22)
			desc = fmt.Sprintf("frame DAG with duplicated links, depth %d", depth)
			frames := map[string][]byte{}
			var next []cid.Cid
			for i := depth; i >= 1; i-- {
				_, raw := world.LegacyFrame([]byte{byte(i)}, next)
				c := world.CidOf(raw)
				frames[c.KeyString()] = raw
				next = []cid.Cid{c, c}
			}
			head, _ := world.LegacyFrame([]byte{0}, next)
			fetches := 0
			bounded := true
			run("reassemble", depth*64, func() {
				tooling.LoadDataFromDataFrames(&head, func(ctx context.Context, c cid.Cid) (*ipldbindcode.DataFrame, error) {
					fetches++
					if fetches > 200*depth {
						bounded = false
						return nil, fmt.Errorf("too many fetches")
					}
					raw, ok := frames[c.KeyString()]
					if !ok {
						return nil, fmt.Errorf("no such frame")
					}
					return iplddecoders.DecodeDataFrame(raw)
				})
			})
			if !bounded {
				x.Failf("oracle", "corrupted frame-dag: work out of proportion to the input", "%s: more than %d frame fetches for %d stored frames", desc, 200*depth, depth)
			}
		case 10:
			// an index file that is well-formed as a container but whose identity metadata has values of
			// the wrong length or content (the metadata block is length-prefixed key/value pairs: a
			// damaged length byte produces exactly this): built with the real container builder
			role := []string{"cid_to_offset_and_size", "slot_to_cid", "sig_to_cid"}[t.Intn(3)]
			kind := map[string][]byte{"cid_to_offset_and_size": indexes.Kind_CidToOffsetAndSize, "slot_to_cid": indexes.Kind_SlotToCid, "sig_to_cid": indexes.Kind_SigToCid}[role]
			vs := map[string]uint{"cid_to_offset_and_size": 9, "slot_to_cid": 36, "sig_to_cid": 36}[role]
			epochLen := t.Pick(3, 0, 1, 7, 8, 9, 16)
			rootMode := t.Intn(4)
			netMode := t.Intn(3)
			desc = fmt.Sprintf("%s with ill-typed metadata: epoch value of %d bytes, root mode %d, network mode %d", role, epochLen, rootMode, netMode)
			dir := filepath.Join(x.TempDir(), "illmeta")
			os.MkdirAll(dir, 0o755)
			tmpB := filepath.Join(dir, "tmp") // deleted by the builder's Close
			os.MkdirAll(tmpB, 0o755)
			b, err := compactindexsized.NewBuilderSized(tmpB, 4, vs)
			if err != nil {
				dsim.Active().Fail("harness", "NewBuilderSized", err.Error())
			}
			b.SetKind(kind)
			b.Metadata().Add(indexmeta.MetadataKey_Epoch, r.Bytes(epochLen))
			switch rootMode {
			case 0:
				b.Metadata().Add(indexmeta.MetadataKey_RootCid, w.Root.Bytes())
			case 1:
				b.Metadata().Add(indexmeta.MetadataKey_RootCid, []byte{})
			case 2:
				b.Metadata().Add(indexmeta.MetadataKey_RootCid, r.Bytes(5))
			}
			switch netMode {
			case 0:
				b.Metadata().Add(indexmeta.MetadataKey_Network, []byte("mainnet"))
			case 1:
				b.Metadata().Add(indexmeta.MetadataKey_Network, []byte{})
			}
			for i := 0; i < 4; i++ {
				b.Insert(r.Bytes(8), r.Bytes(int(vs)))
			}
			path := filepath.Join(dir, "ill.index")
			f, err := simos.Create(path)
			if err != nil {
				dsim.Active().Fail("harness", "create", err.Error())
			}
			serr := b.Seal(ctx, f)
			f.Close()
			b.Close()
			if serr != nil {
				x.Probe("c12.illmeta_build_refused")
				break
			}
			bad, err := os.ReadFile(path)
			if err != nil || len(bad) == 0 {
				dsim.Active().Fail("harness", "the crafted index file is missing", fmt.Sprint(err))
			}
			run("open+meta", len(bad), func() {
				rd := &c12ra{b: bad}
				switch role {
				case "cid_to_offset_and_size":
					if ix, err := indexes.OpenWithReader_CidToOffsetAndSize(rd); err == nil {
						ix.Meta()
					}
				case "slot_to_cid":
					if ix, err := indexes.OpenWithReader_SlotToCid(rd); err == nil {
						ix.Meta()
					}
				default:
					if ix, err := indexes.OpenWithReader_SigToCid(rd); err == nil {
						ix.Meta()
					}
				}
			})
			cp := set.clone()
			cp.files[role] = path
			cfg := cp.write(filepath.Join(dir, "epoch.yml"))
			run("load", len(bad), func() {
				if ep, err := loadEpoch(cfg); err == nil {
					ep.Close()
				}
			})
		default:
			// a copy of the epoch directory with one file corrupted: load and query through the server
			role := c10roles[t.Intn(5)]
			corruptCar := t.Bool(0.4)
			dir := filepath.Join(x.TempDir(), "epoch")
			os.MkdirAll(dir, 0o755)
			cp := set.clone()
			var bad []byte
			if corruptCar {
				bad, desc = c12corrupt(t, r, w.CAR)
				desc = "CAR of a loaded epoch: " + desc
				cp.car = filepath.Join(dir, "epoch.car")
				os.WriteFile(cp.car, bad, 0o644)
			} else {
				full, _ := os.ReadFile(set.files[role])
				bad, desc = c12corrupt(t, r, full)
				desc = role + " of a loaded epoch: " + desc
				cp.files[role] = filepath.Join(dir, "corrupt.index")
				os.WriteFile(cp.files[role], bad, 0o644)
			}
			cfg := cp.write(filepath.Join(dir, "epoch.yml"))
			run("load+query", len(bad), func() {
				ep, err := loadEpoch(cfg)
				if err != nil {
					return
				}
				multi := NewMultiEpoch(&Options{EpochSearchConcurrency: 2})
				multi.AddEpoch(ep.Epoch(), ep)
				defer multi.Close()
				handler := newMultiEpochHandler(multi, nil)
				queries = 2*len(w.Blocks) + 10
				for i, b := range w.Blocks {
					jsonRPC(handler, "getBlock", []any{b.Slot, map[string]any{"encoding": []string{"base64", "json"}[i%2], "maxSupportedTransactionVersion": 0}})
					jsonRPC(handler, "getBlockTime", []any{b.Slot})
				}
				for i, tx := range w.Txs {
					if i > 6 {
						break
					}
					jsonRPC(handler, "getTransaction", []any{tx.Sig().String(), map[string]any{"encoding": "json", "maxSupportedTransactionVersion": 0}})
				}
				jsonRPC(handler, "getSignaturesForAddress", []any{w.Addresses[0].String()})
				jsonRPC(handler, "getSlot", []any{})
				jsonRPC(handler, "getFirstAvailableBlock", []any{})
				if s := dsim.Active(); s != nil {
					s.Quiesce()
				}
			})
		}
	})
	x.Digest(names[target], desc, w.Epoch)
	x.Note("corruption", desc)
	x.Note("input_bytes", inputLen)
	x.SetNontrivial(true)
}

type c12ra struct{ b []byte }

func (r *c12ra) ReadAt(p []byte, off int64) (int, error) {
	if off < 0 {
		return 0, fmt.Errorf("negative offset")
	}
	if off >= int64(len(r.b)) {
		return 0, io.EOF
	}
	n := copy(p, r.b[off:])
	if n < len(p) {
		return n, io.EOF
	}
	return n, nil
}
func (r *c12ra) Close() error { return nil }

// c12top: the first frame of /repo code below the panic (function name only).
func c12top(stack string) string {
	lines := strings.Split(stack, "\n")
	seen := false
	for _, l := range lines {
		l = strings.TrimSpace(l)
		if strings.HasPrefix(l, "panic(") {
			seen = true
			continue
		}
		if !seen || l == "" || strings.HasPrefix(l, "/") || strings.HasPrefix(l, "runtime.") {
			continue
		}
		if strings.Contains(l, "zz_verif") || strings.Contains(l, "scenarioC12") {
			continue
		}
		if i := strings.LastIndex(l, "("); i > 0 {
			l = l[:i]
		}
		return l
	}
	return "unknown"
}

func mini(a, b int) int {
	if a < b {
		return a
	}
	return b
}
