package main

import (
	"context"
	"fmt"
	"os"
	"path/filepath"
	"sort"
	"strings"
	"time"

	"dsim"
	"dsim/runner"
	"dsim/simctx"

	bin "github.com/gagliardetto/binary"
	"github.com/gagliardetto/solana-go"
	old_faithful_grpc "github.com/rpcpool/yellowstone-faithful/old-faithful-proto/old-faithful-grpc"
	"github.com/rpcpool/yellowstone-faithful/zzverif/world"
	"google.golang.org/grpc"
	"google.golang.org/grpc/metadata"
)

// C19: streaming a slot range returns exactly the archived items matching the filter.
func init() { runner.Register("C19", scenarioC19) }

type fakeStream struct {
	ctx context.Context
}

func (f *fakeStream) SetHeader(metadata.MD) error  { return nil }
func (f *fakeStream) SendHeader(metadata.MD) error { return nil }
func (f *fakeStream) SetTrailer(metadata.MD)       {}
func (f *fakeStream) Context() context.Context     { return f.ctx }
func (f *fakeStream) SendMsg(m any) error          { return nil }
func (f *fakeStream) RecvMsg(m any) error          { return nil }

var _ grpc.ServerStream = (*fakeStream)(nil)

type blockStream struct {
	fakeStream
	got []*old_faithful_grpc.BlockResponse
}

func (b *blockStream) Send(r *old_faithful_grpc.BlockResponse) error {
	if s := dsim.Active(); s != nil && !s.Stopping() {
		s.Yield("stream.send")
	}
	b.got = append(b.got, r)
	return nil
}

type txStream struct {
	fakeStream
	got []*old_faithful_grpc.TransactionResponse
}

func (b *txStream) Send(r *old_faithful_grpc.TransactionResponse) error {
	if s := dsim.Active(); s != nil && !s.Stopping() {
		s.Yield("stream.send")
	}
	b.got = append(b.got, r)
	return nil
}

func firstSigOf(raw []byte) (solana.Signature, error) {
	tx, err := solana.TransactionFromDecoder(bin.NewBinDecoder(raw))
	if err != nil {
		return solana.Signature{}, err
	}
	if len(tx.Signatures) == 0 {
		return solana.Signature{}, fmt.Errorf("no signatures")
	}
	return tx.Signatures[0], nil
}

func txLabel(tx *world.Tx) string {
	f := ""
	if tx.IsVote {
		f += "V"
	}
	if tx.Failed {
		f += "F"
	}
	return fmt.Sprintf("%d.%d%s", tx.Slot, tx.Position, f)
}

func scenarioC19(x *runner.X) {
	t := x.Tape
	engineKnobs(nil)
	n := t.Range(1, 2)
	// dense: one epoch in which some account is mentioned by more transactions than any fixed
	// page size of the address-index reader, all inside one permitted slot range
	dense := t.Bool(0.08)
	// veryDense (a quarter of the dense worlds): the account is mentioned by more transactions
	// than one batch of the address index's linked log holds (1000), so its history in the epoch
	// spans several batches and a batch boundary falls inside a slot
	veryDense := dense && t.Bool(0.25)
	if dense {
		n = 1
	}
	// hot: few slots, many transactions per slot, requests that include several accounts, so that
	// the per-account workers of the index path meet in the same slot of the ordered buffer
	hot := !dense && t.Bool(0.3)
	first := uint64(t.Pick(1, 5, 77))
	var ws []*builtWorld
	for i := 0; i < n; i++ {
		e := first + uint64(i) // adjacent epochs: ranges can cross the boundary
		p := world.Params{Epoch: e, Salt: 19, NumBlocks: t.Range(2, 6), MaxEntries: t.Range(1, 3), MaxTxPerEntry: t.Range(1, 3), NumAccounts: t.Pick(6, 8), MaxFrameBytes: t.Pick(200, 80, 1000), SkipProb: 0.5, MaxSkip: t.Pick(2, 6), VoteFrac: 0.35, FailedFrac: 0.3, V0Frac: 0.6, LookupFrac: 0.8}
		if i == 0 && n == 2 {
			p.FirstSlotOffset = world.SlotsPerEpoch - 40 // near the end of the epoch
		}
		if hot {
			p.NumBlocks, p.MaxEntries, p.MaxTxPerEntry, p.NumAccounts = t.Range(1, 3), 3, 6, 6
		}
		if dense {
			p.NumBlocks, p.MaxEntries, p.MaxTxPerEntry, p.NumAccounts = t.Range(30, 45), 4, 7, 6
			p.SkipProb, p.MaxSkip, p.VoteFrac, p.MaxFrameBytes = 0.2, 2, 0.6, 1000
		}
		if veryDense {
			p.NumBlocks, p.MaxEntries, p.MaxTxPerEntry, p.NumAccounts = t.Range(70, 90), 7, 12, 3
		}
		w := world.Generate(tapeRng{t.SubRand()}, p)
		dir := filepath.Join(x.TempDir(), fmt.Sprintf("epoch-%d", e))
		cfg, err := buildWorldDir(dir, w, true)
		if err != nil {
			x.Failf("oracle", "index generation failed on a well-formed epoch CAR", "%s: %v", w.Describe(), err)
			return
		}
		ws = append(ws, &builtWorld{w: w, cfg: cfg, dir: dir, loaded: true})
		x.Digest(w.Describe())
	}
	// the same epochs without the address index
	noGsfa := make([]string, len(ws))
	for i, b := range ws {
		raw, err := os.ReadFile(b.cfg)
		if err != nil {
			x.Failf("harness", "read config", "%v", err)
			return
		}
		var out []string
		lines := strings.Split(string(raw), "\n")
		for j := 0; j < len(lines); j++ {
			if strings.HasPrefix(lines[j], "  gsfa:") {
				j++ // skip its uri line
				continue
			}
			out = append(out, lines[j])
		}
		noGsfa[i] = filepath.Join(b.dir, "nogsfa.yml")
		os.WriteFile(noGsfa[i], []byte(strings.Join(out, "\n")), 0o644)
	}
	x.Note("worlds", describeWorlds(ws))
	var allBlocks []*world.Block
	var allTxs []*world.Tx
	accSet := map[solana.PublicKey]bool{}
	for _, b := range ws {
		allBlocks = append(allBlocks, b.w.Blocks...)
		allTxs = append(allTxs, b.w.Txs...)
		for _, a := range b.w.Addresses {
			accSet[a] = true
		}
	}
	var accounts []solana.PublicKey
	for a := range accSet {
		accounts = append(accounts, a)
	}
	sort.Slice(accounts, func(i, j int) bool { return accounts[i].String() < accounts[j].String() })
	bySig := map[solana.Signature]*world.Tx{}
	for _, tx := range allTxs {
		bySig[tx.Sig()] = tx
	}
	mentions := func(tx *world.Tx, a solana.PublicKey) bool {
		for _, l := range [][]solana.PublicKey{tx.Static, tx.LoadedWritable, tx.LoadedReadonly} {
			for _, k := range l {
				if k == a {
					return true
				}
			}
		}
		return false
	}
	type txReq struct {
		start, end                 uint64
		noFilter                   bool
		vote, failed               bool
		include, exclude, required []solana.PublicKey
	}
	pickAccs := func(k int) []solana.PublicKey {
		var out []solana.PublicKey
		for i := 0; i < k; i++ {
			out = append(out, accounts[t.Intn(len(accounts))])
		}
		return out
	}
	pickRange := func() (uint64, uint64) {
		a := allBlocks[t.Intn(len(allBlocks))].Slot
		b := allBlocks[t.Intn(len(allBlocks))].Slot
		if a > b {
			a, b = b, a
		}
		if t.Bool(0.3) && a > 2 {
			a -= uint64(t.Intn(3))
		}
		if t.Bool(0.3) {
			b += uint64(t.Intn(3))
		}
		if b-a > 90 { // stay below the server's own cap on a range
			a = b - uint64(t.Range(0, 90))
		}
		return a, b
	}
	nReq := t.Range(2, 5)
	var reqs []txReq
	desc := ""
	for i := 0; i < nReq; i++ {
		q := txReq{vote: t.Bool(0.5), failed: t.Bool(0.5)}
		q.start, q.end = pickRange()
		switch t.Intn(6) {
		case 0:
			q.noFilter = true
		case 1: // flags only
		default:
			q.include = pickAccs(t.Range(1, 2))
		}
		if !q.noFilter && t.Bool(0.3) {
			q.exclude = pickAccs(t.Range(1, 2))
		}
		if !q.noFilter && t.Bool(0.3) {
			q.required = pickAccs(t.Range(1, 2))
		}
		// a client may name an account twice in a list: the lists are sets
		if t.Bool(0.2) {
			if l := []*[]solana.PublicKey{&q.include, &q.exclude, &q.required}[t.Intn(3)]; len(*l) > 0 {
				*l = append(*l, (*l)[t.Intn(len(*l))])
				x.Probe("c19.duplicate_in_filter_list")
			}
		}
		reqs = append(reqs, q)
		desc += fmt.Sprintf("[%d..%d nofilter=%v vote=%v failed=%v inc=%d exc=%d req=%d] ", q.start, q.end, q.noFilter, q.vote, q.failed, len(q.include), len(q.exclude), len(q.required))
	}
	if hot {
		for k := 0; k < 3; k++ {
			q := txReq{vote: true, failed: true, include: pickAccs(t.Range(3, 4))}
			q.start, q.end = pickRange()
			if k == 0 {
				q.start, q.end = allBlocks[0].Slot, allBlocks[len(allBlocks)-1].Slot
				if q.end-q.start > 90 {
					q.start = q.end - 90
				}
			}
			reqs = append(reqs, q)
			desc += fmt.Sprintf("[hot %d..%d inc=%d] ", q.start, q.end, len(q.include))
		}
		x.Probe("c19.hot_slot_requests")
	}
	if dense {
		// the whole epoch, filtered by the most mentioned account
		best := accounts[0]
		for _, a := range accounts {
			if len(ws[0].w.ByAddress[a]) > len(ws[0].w.ByAddress[best]) {
				best = a
			}
		}
		q := txReq{vote: true, failed: true, include: []solana.PublicKey{best}}
		q.start, q.end = allBlocks[0].Slot, allBlocks[len(allBlocks)-1].Slot
		if q.end-q.start > 90 {
			q.start = q.end - 90
		}
		reqs = append(reqs, q)
		desc += fmt.Sprintf("[dense %d..%d inc=%s mentions=%d] ", q.start, q.end, best, len(ws[0].w.ByAddress[best]))
		if len(ws[0].w.ByAddress[best]) > 100 {
			x.Probe("account_with_over_100_matches")
		}
		if m := ws[0].w.ByAddress[best]; len(m) > 1000 {
			x.Probe("account_with_over_1000_matches")
			// streams that start in the neighbourhood of every 1000th mention (counted from the
			// oldest, the order in which the indexer pushes them), and at a few other slots
			var starts []uint64
			for k := 1000; k < len(m); k += 1000 {
				// ByAddress is newest first: mention j from the oldest is m[len(m)-1-j]
				for _, j := range []int{k - 1, k} {
					starts = append(starts, m[len(m)-1-j].Block.Slot)
				}
			}
			for k := 0; k < 3; k++ {
				starts = append(starts, allBlocks[t.Intn(len(allBlocks))].Slot)
			}
			last := allBlocks[len(allBlocks)-1].Slot
			for _, st := range starts {
				q := txReq{vote: true, failed: true, include: []solana.PublicKey{best}, start: st, end: st + uint64(t.Range(0, 30))}
				if q.end > last {
					q.end = last
				}
				reqs = append(reqs, q)
				desc += fmt.Sprintf("[very dense %d..%d] ", q.start, q.end)
			}
		}
	}
	x.Digest(desc)
	x.Note("requests", desc)
	keep := func(q txReq, tx *world.Tx) bool {
		if tx.Slot < q.start || tx.Slot > q.end {
			return false
		}
		if q.noFilter {
			return true
		}
		if !q.vote && tx.IsVote {
			return false
		}
		if !q.failed && tx.Failed {
			return false
		}
		if len(q.include) > 0 {
			any := false
			for _, a := range q.include {
				if mentions(tx, a) {
					any = true
				}
			}
			if !any {
				return false
			}
		}
		for _, a := range q.exclude {
			if mentions(tx, a) {
				return false
			}
		}
		for _, a := range q.required {
			if !mentions(tx, a) {
				return false
			}
		}
		return true
	}
	strs := func(l []solana.PublicKey) []string {
		var out []string
		for _, a := range l {
			out = append(out, a.String())
		}
		return out
	}
	lateAdd := n == 2 && t.Bool(0.4)
	x.Note("last_epoch_hot_loaded", lateAdd)
	x.Sim(runner.SimOpts{Phase: "streaming", Cfg: dsim.Config{MaxSteps: 50000000, MaxSimTime: 10 * time.Hour, NoTimerRace: true}}, func() {
		s := dsim.Active()
		servers := map[string]*MultiEpoch{}
		for _, name := range []string{"index", "scan"} { // fixed order: a map range here would make the run irreproducible
			var cfgs []string
			if name == "scan" {
				cfgs = noGsfa
			}
			if name == "index" {
				for _, b := range ws {
					cfgs = append(cfgs, b.cfg)
				}
			}
			multi := NewMultiEpoch(&Options{EpochSearchConcurrency: 2})
			srvLoad := newServerLoader()
			for ci, c := range cfgs {
				if lateAdd && ci == len(cfgs)-1 && ci > 0 {
					// the last epoch is hot-loaded after the server has already streamed a range that
					// reaches into it: what those streams remembered must not outlive the load
					lo, hi := allBlocks[0].Slot, allBlocks[len(allBlocks)-1].Slot
					if hi-lo > 90 {
						lo = hi - 90
					}
					ctx, cancel := simctx.WithCancel(context.Background())
					multi.StreamBlocks(&old_faithful_grpc.StreamBlocksRequest{StartSlot: lo, EndSlot: &hi}, &blockStream{fakeStream: fakeStream{ctx: ctx}})
					multi.StreamTransactions(&old_faithful_grpc.StreamTransactionsRequest{StartSlot: lo, EndSlot: &hi}, &txStream{fakeStream: fakeStream{ctx: ctx}})
					cancel()
				}
				ep, err := srvLoad(c)
				if err != nil {
					s.Fail("oracle", "a freshly indexed epoch cannot be loaded", err.Error())
				}
				multi.AddEpoch(ep.Epoch(), ep)
			}
			servers[name] = multi
		}
		// --- StreamBlocks
		for i := 0; i < 3; i++ {
			start, end := pickRange()
			var inc []solana.PublicKey
			if t.Bool(0.6) {
				inc = pickAccs(t.Range(1, 2))
			}
			var want []uint64
			for _, b := range allBlocks {
				if b.Slot < start || b.Slot > end {
					continue
				}
				if len(inc) > 0 {
					hit := false
					for _, tx := range b.Txs {
						for _, a := range inc {
							if mentions(tx, a) {
								hit = true
							}
						}
					}
					if !hit {
						continue
					}
				}
				want = append(want, b.Slot)
			}
			ctx, cancel := simctx.WithCancel(context.Background())
			st := &blockStream{fakeStream: fakeStream{ctx: ctx}}
			req := &old_faithful_grpc.StreamBlocksRequest{StartSlot: start, EndSlot: &end}
			if len(inc) > 0 {
				req.Filter = &old_faithful_grpc.StreamBlocksFilter{AccountInclude: strs(inc)}
			}
			err := servers["index"].StreamBlocks(req, st)
			cancel()
			var got []uint64
			for _, b := range st.got {
				got = append(got, b.Slot)
			}
			what := fmt.Sprintf("StreamBlocks(%d..%d, include=%d accounts)", start, end, len(inc))
			if err != nil {
				if x.Failf("oracle", "StreamBlocks failed on an archived range", "%s: %v", what, err) {
					return
				}
				continue
			}
			if fmt.Sprint(got) != fmt.Sprint(want) {
				if x.Failf("oracle", "StreamBlocks did not send exactly the archived blocks of the range in ascending order", "%s\n got  %v\n want %v", what, got, want) {
					return
				}
			}
		}
		// --- StreamTransactions, index path and scan path
		for _, q := range reqs {
			var want []string
			for _, tx := range allTxs {
				if keep(q, tx) {
					want = append(want, txLabel(tx))
				}
			}
			results := map[string][]string{}
			for _, name := range []string{"index", "scan"} {
				ctx, cancel := simctx.WithCancel(context.Background())
				st := &txStream{fakeStream: fakeStream{ctx: ctx}}
				end := q.end
				req := &old_faithful_grpc.StreamTransactionsRequest{StartSlot: q.start, EndSlot: &end}
				if !q.noFilter {
					v, f := q.vote, q.failed
					req.Filter = &old_faithful_grpc.StreamTransactionsFilter{Vote: &v, Failed: &f, AccountInclude: strs(q.include), AccountExclude: strs(q.exclude), AccountRequired: strs(q.required)}
				}
				err := servers[name].StreamTransactions(req, st)
				cancel()
				what := fmt.Sprintf("StreamTransactions[%s path](%d..%d nofilter=%v vote=%v failed=%v include=%v exclude=%v required=%v)", name, q.start, q.end, q.noFilter, q.vote, q.failed, short(q.include), short(q.exclude), short(q.required))
				if err != nil {
					if x.Failf("oracle", "StreamTransactions failed on an archived range: "+name+" path", "%s: %v", what, err) {
						return
					}
					continue
				}
				var got []string
				for _, r := range st.got {
					if r.Transaction == nil || len(r.Transaction.Transaction) == 0 {
						continue // the "nothing found" placeholder is not a transaction
					}
					sg, err := firstSigOf(r.Transaction.Transaction)
					if err != nil {
						x.Failf("oracle", "a streamed transaction does not parse", "%s: %v", what, err)
						return
					}
					tx := bySig[sg]
					if tx == nil {
						x.Failf("oracle", "a streamed transaction is not in the archive", "%s: %s", what, sg)
						return
					}
					got = append(got, txLabel(tx))
				}
				results[name] = got
				if fmt.Sprint(got) != fmt.Sprint(want) {
					sig := "StreamTransactions did not send exactly the matching transactions in slot/position order: " + name + " path"
					if x.Failf("oracle", sig, "%s\n got  %v\n want %v\n all  %v", what, got, want, labels(allTxs, q.start, q.end)) {
						return
					}
				}
			}
			a, b := append([]string(nil), results["index"]...), append([]string(nil), results["scan"]...)
			sort.Strings(a)
			sort.Strings(b)
			if fmt.Sprint(a) != fmt.Sprint(b) {
				if x.Failf("oracle", "the set of streamed transactions depends on whether an address index is loaded", "%v\n index path %v\n scan path  %v", q, results["index"], results["scan"]) {
					return
				}
			}
		}
		s.QuiesceTimers()
		for _, name := range []string{"index", "scan"} {
			servers[name].Close()
		}
	})
	x.SetNontrivial(true)
}

func short(l []solana.PublicKey) []string {
	var out []string
	for _, a := range l {
		out = append(out, a.String()[:6])
	}
	return out
}

func labels(txs []*world.Tx, lo, hi uint64) []string {
	var out []string
	for _, tx := range txs {
		if tx.Slot >= lo && tx.Slot <= hi {
			out = append(out, txLabel(tx))
		}
	}
	return out
}
