package main

import (
	"fmt"
	"testing"

	"github.com/rpcpool/yellowstone-faithful/zzverif/world"
	"k8s.io/klog/v2"
)

func TestZZProbe(t *testing.T) {
	klog.LogToStderr(false)
	klog.SetOutput(discardWriter{})
	defer muteStderr(t)()
	defer worldTuneGC()()
	cases := []world.Params{
		{NumAccounts: 6, MaxSigs: 3, V0Frac: 1, LookupFrac: 1, NumTables: 1, VoteFrac: -1, NumBlocks: 8, MaxTxPerEntry: 6},
		{MaxFrameBytes: 16, SplitTxData: true, Fanout: 64, NumBlocks: 3},
		{MaxFrameBytes: 16, Fanout: 1, NumBlocks: 3, BigObjects: true},
		{NumBlocks: 40, MaxEntries: 64, MaxTxPerEntry: 2, Epoch: 4_000_000},
		{Epoch: 1 << 32, NumBlocks: 4, FirstSlotOffset: 431998},
		{MaxRewards: 2000, NumBlocks: 3, NoRewardsProb: -1, EmptyRewardsProb: -1, MaxFrameBytes: 1 << 20},
		{Epoch: 0, FirstSlotOffset: 1, NumBlocks: 3, SkipProb: -1},
		{Epoch: 0, FirstSlotOffset: 5, DanglingFirstParent: true, NumBlocks: 3},
		{Epoch: 0, FirstSlotOffset: 0, DanglingFirstParent: true, NumBlocks: 3},
		{Epoch: 3, FirstSlotOffset: 0, DanglingFirstParent: true, NumBlocks: 3, FirstParentGap: 5000},
		{Epoch: 1, FirstParentGap: 1000, NumBlocks: 2, BlocksPerSubset: 1},
		{Epoch: 5, NumBlocks: 500, MaxEntries: 2, MaxTxPerEntry: 1, SkipProb: 0.9, MaxSkip: 800},
	}
	for i, p := range cases {
		p.Salt = uint64(i)
		t.Run(fmt.Sprint(i), func(t *testing.T) {
			w := world.Generate(&worldRng{s: uint64(1000 + i)}, p)
			checkWorldStatic(t, 1000+i, p, w)
			withGsfa := !w.Params.SplitTxData
			cfg, err := buildEpochDir(t.TempDir(), w, withGsfa)
			if err != nil {
				t.Fatal(err)
			}
			multi, handler, err := newWorldServer(cfg)
			if err != nil {
				t.Fatal(err)
			}
			defer multi.Close()
			checkWorldServer(t, multi, handler, []*world.World{w}, withGsfa)
			t.Log(w.Describe())
		})
	}
}
