package main

import (
	"bytes"
	"context"
	"encoding/json"
	"fmt"
	"os"
	"path/filepath"
	"runtime"
	"sort"
	"time"

	"dsim"
	"dsim/runner"
	"dsim/simsync"

	"github.com/gagliardetto/solana-go"
	"github.com/rpcpool/yellowstone-faithful/compactindexsized"
	"github.com/rpcpool/yellowstone-faithful/indexes"
	old_faithful_grpc "github.com/rpcpool/yellowstone-faithful/old-faithful-proto/old-faithful-grpc"
	"github.com/rpcpool/yellowstone-faithful/zzverif/world"
	"github.com/valyala/fasthttp"
	"google.golang.org/grpc/codes"
	"google.golang.org/grpc/status"
)

// Whole-server scenarios over freshly generated worlds: C02 (archived keys answered exactly),
// C03 (absent keys never answered with another key's object).

func init() {
	runner.Register("C02", scenarioC02)
	runner.Register("C03", scenarioC03)
}

type builtWorld struct {
	w      *world.World
	cfg    string
	dir    string
	loaded bool
}

// drawWorldParams draws the shape of one epoch from the tape.
func drawWorldParams(t *dsim.Tape, epoch uint64, salt uint64, small bool) world.Params {
	p := world.Params{Epoch: epoch, Salt: salt}
	p.NumBlocks = t.Range(1, 6)
	if !small && t.Bool(0.15) {
		p.NumBlocks = t.Range(7, 20)
	}
	p.MaxEntries = t.Range(1, 4)
	p.MaxTxPerEntry = t.Range(1, 3)
	p.NumAccounts = t.Pick(8, 6, 12, 20)
	p.MaxFrameBytes = t.Pick(200, 50, 100, 300, 1000)
	p.Fanout = t.Range(1, 6)
	p.SkipProb = []float64{0.3, -1, 0.6}[t.Intn(3)]
	p.MaxSkip = t.Pick(3, 1, 20)
	p.FirstSlotOffset = t.Pick(0, 0, 5, 1000, 431000)
	p.BigObjects = !small && t.Bool(0.08)
	p.EntriesLast = t.Bool(0.1)
	if epoch == 0 {
		// parent slot 0 doubles as "unknown" in the archive format: only slot 1 may have parent 0, so
		// epoch-0 worlds have no gaps at their start (DESIGN.md section 5.5)
		p.SkipProb = -1
		p.FirstSlotOffset = 0
	}
	return p
}

// drawWorlds generates and builds n epochs with distinct epoch numbers (ascending).
func drawWorlds(x *runner.X, n int, withGsfa bool, small bool, splitTxProb float64) []*builtWorld {
	t := x.Tape
	pool := []uint64{0, 1, 2, 5, 77, 600, 601}
	perm := t.Perm(len(pool))
	var epochs []uint64
	for i := 0; i < n; i++ {
		epochs = append(epochs, pool[perm[i]])
	}
	sort.Slice(epochs, func(i, j int) bool { return epochs[i] < epochs[j] })
	var out []*builtWorld
	for i, e := range epochs {
		p := drawWorldParams(t, e, uint64(1000+i), small)
		if splitTxProb > 0 && !withGsfa && t.Bool(splitTxProb) {
			p.SplitTxData = true
		}
		if !small && t.Bool(0.04) {
			p.HugeRewards = true // an epoch-boundary-sized rewards list: > 1 MiB before compression
			x.Probe("world.huge_rewards")
		}
		r := t.SubRand()
		w := world.Generate(tapeRng{r}, p)
		dir := filepath.Join(x.TempDir(), fmt.Sprintf("epoch-%d", e))
		cfg, err := buildWorldDir(dir, w, withGsfa)
		if err != nil {
			x.Failf("oracle", "index generation failed on a well-formed epoch CAR", "%s: %v", w.Describe(), err)
			return nil
		}
		out = append(out, &builtWorld{w: w, cfg: cfg, dir: dir})
		x.Digest(w.Describe(), dsim.HashBytes(w.CAR))
	}
	return out
}

func describeWorlds(ws []*builtWorld) []string {
	var out []string
	for _, b := range ws {
		l := ""
		if b.loaded {
			l = " [loaded]"
		}
		out = append(out, b.w.Describe()+l)
	}
	return out
}

func scenarioC02(x *runner.X) {
	t := x.Tape
	engineKnobs(nil)
	n := t.Range(1, 3)
	ws := drawWorlds(x, n, false, false, 0.2)
	if ws == nil {
		return
	}
	// any non-empty subset is loaded
	mask := 1 + t.Intn(1<<uint(n)-1)
	var loaded []*builtWorld
	for i, b := range ws {
		if mask&(1<<uint(i)) != 0 {
			b.loaded = true
			loaded = append(loaded, b)
		}
	}
	conc := t.Pick(2, -1, 1, 4, runtime.NumCPU())
	nClients := t.Range(1, 3)
	all := x.Tier == "thorough"
	x.Digest(mask, conc, nClients)
	x.Note("worlds", describeWorlds(ws))
	x.Note("epoch_search_concurrency", conc)
	x.Note("clients", nClients)

	type job struct {
		w   *world.World
		bi  int
		b   *world.Block
		tx  *world.Tx
		enc string
		how int
	}
	encs := []string{"base64", "base58", "base64+zstd", "json"}
	var jobs []job
	for _, lw := range loaded {
		for bi, b := range lw.w.Blocks {
			jobs = append(jobs, job{w: lw.w, bi: bi, b: b, enc: encs[t.Intn(4)], how: t.Intn(3)})
		}
		for _, tx := range lw.w.Txs {
			jobs = append(jobs, job{w: lw.w, tx: tx, enc: []string{"base64", "json"}[t.Intn(2)], how: t.Intn(2)})
		}
	}
	order := t.Perm(len(jobs))
	if !all && len(order) > 14*nClients {
		order = order[:14*nClients]
	}
	stmtYields := t.Bool(0.5) // statement-level pre-emption inside epoch.go / storage.go (node reads)
	x.Note("statement_yields", stmtYields)
	x.Sim(runner.SimOpts{Phase: "server", Cfg: dsim.Config{MaxSteps: 40000000, MaxSimTime: 10 * time.Hour, StmtYields: stmtYields}}, func() {
		s := dsim.Active()
		multi := NewMultiEpoch(&Options{EpochSearchConcurrency: conc})
		srvLoad := newServerLoader()
		for _, lw := range loaded {
			ep, err := srvLoad(lw.cfg)
			if err != nil {
				s.Fail("oracle", "a freshly indexed epoch cannot be loaded", err.Error())
			}
			if err := multi.AddEpoch(ep.Epoch(), ep); err != nil {
				s.Fail("harness", "AddEpoch", err.Error())
			}
		}
		handler := newMultiEpochHandler(multi, nil)
		rep := &simReporter{x: x}
		var wg simsync.WaitGroup
		for c := 0; c < nClients; c++ {
			c := c
			wg.Add(1)
			dsim.Go(fmt.Sprintf("client%d", c), func() {
				defer wg.Done()
				for k := c; k < len(order); k += nClients {
					if x.Failed() {
						return
					}
					j := jobs[order[k]]
					guard(func() {
						if j.b != nil {
							switch j.how {
							case 0:
								checkBlockGRPC(rep, multi, j.w, j.bi, j.b)
							case 1:
								checkBlockJSON(rep, handler, j.w, j.bi, j.b, j.enc)
							default:
								checkBlockTime(rep, multi, handler, j.b.Slot, j.b.BlockTime)
							}
						} else {
							if j.how == 0 {
								checkTxGRPC(rep, multi, j.tx)
							} else {
								checkTxJSON(rep, handler, j.tx, j.enc)
							}
						}
					})
					x.Probe("c02.requests")
				}
			})
		}
		wg.Wait()
		s.QuiesceTimers()
		multi.Close()
	})
}

// ---------------------------------------------------------------------------------------
// C03

// collidingAbsentKeys searches, with the index's own hash, for keys that are NOT stored but share
// bucket and in-bucket hash with a stored key. mk(i) yields candidate i.
func collidingAbsentKeys(indexPath string, stored map[string]bool, mk func(i int) []byte, tries int, want int) ([][]byte, error) {
	f, err := os.Open(indexPath)
	if err != nil {
		return nil, err
	}
	defer f.Close()
	db, err := compactindexsized.Open(f)
	if err != nil {
		return nil, err
	}
	type bk struct {
		b      *compactindexsized.Bucket
		hashes map[uint64]bool
	}
	buckets := map[uint]*bk{}
	var out [][]byte
	for i := 0; i < tries && len(out) < want; i++ {
		k := mk(i)
		if stored[string(k)] {
			continue
		}
		bi := db.Header.BucketHash(k)
		b := buckets[bi]
		if b == nil {
			bucket, err := db.GetBucket(bi)
			if err != nil {
				return nil, err
			}
			entries, err := bucket.Load(0)
			if err != nil {
				return nil, err
			}
			b = &bk{b: bucket, hashes: map[uint64]bool{}}
			for _, e := range entries {
				b.hashes[e.Hash] = true
			}
			buckets[bi] = b
		}
		if b.hashes[b.b.Hash(k)] {
			out = append(out, k)
		}
	}
	return out, nil
}

func scenarioC03(x *runner.X) {
	t := x.Tape
	engineKnobs(nil)
	n := t.Range(1, 3)
	// 40 %: transactions whose data spans several frames (a colliding signature can then land on one)
	ws := drawWorlds(x, n, false, true, 0.4)
	if ws == nil {
		return
	}
	// one epoch loaded (no sig-exists pre-filter is consulted) or several
	mask := 1 + t.Intn(1<<uint(n)-1)
	if t.Bool(0.4) {
		mask = 1 << uint(t.Intn(n))
	}
	var loaded []*builtWorld
	for i, b := range ws {
		if mask&(1<<uint(i)) != 0 {
			b.loaded = true
			loaded = append(loaded, b)
		}
	}
	conc := t.Pick(2, -1, 1, 4)
	warmCache := t.Bool(0.5)
	r := t.SubRand()
	x.Digest(mask, conc, warmCache)
	x.Note("worlds", describeWorlds(ws))
	x.Note("epochs_loaded", len(loaded))

	// absent slots: skipped slots of loaded epochs, colliding absent slots, slots of epochs not loaded
	type absSlot struct {
		slot uint64
		why  string
	}
	var absSlots []absSlot
	var absSigs []solana.Signature
	for _, b := range ws {
		w := b.w
		if !b.loaded {
			for _, blk := range w.Blocks {
				absSlots = append(absSlots, absSlot{blk.Slot, "epoch not loaded"})
			}
			continue
		}
		sk := w.SkippedSlots()
		for i := 0; i < len(sk) && i < 6; i++ {
			absSlots = append(absSlots, absSlot{sk[r.Intn(len(sk))], "skipped slot"})
		}
		absSlots = append(absSlots, absSlot{w.FirstSlot + uint64(r.Intn(world.SlotsPerEpoch)), "random slot of a loaded epoch"})
		// colliding slots (the whole epoch is searched: 432000 candidates)
		stored := map[string]bool{}
		for _, blk := range w.Blocks {
			stored[string(indexes.Uint64tob(blk.Slot))] = true
		}
		paths, _ := filepath.Glob(filepath.Join(b.dir, "indexes", "*slot-to-cid*"))
		if len(paths) == 1 {
			ks, err := collidingAbsentKeys(paths[0], stored, func(i int) []byte { return indexes.Uint64tob(w.FirstSlot + uint64(i)) }, world.SlotsPerEpoch, 3)
			if err != nil {
				x.Failf("harness", "collision search failed", "%v", err)
				return
			}
			for _, k := range ks {
				absSlots = append(absSlots, absSlot{leU64(k), "absent slot colliding with a stored one (same bucket, same 24-bit hash)"})
				x.Probe("c03.colliding-slot")
			}
		}
		// colliding signatures: unbounded candidate space
		storedSig := map[string]bool{}
		for _, tx := range w.Txs {
			storedSig[string(tx.Sigs[0][:])] = true
		}
		paths, _ = filepath.Glob(filepath.Join(b.dir, "indexes", "*sig-to-cid*"))
		if len(paths) == 1 {
			cr := dsim.NewRand(r.Uint64())
			budget := 3000000
			if x.Tier == "thorough" {
				budget = 12000000
			}
			ks, err := collidingAbsentKeys(paths[0], storedSig, func(i int) []byte { return cr.Bytes(64) }, budget, 2)
			if err != nil {
				x.Failf("harness", "collision search failed", "%v", err)
				return
			}
			for _, k := range ks {
				var sg solana.Signature
				copy(sg[:], k)
				absSigs = append(absSigs, sg)
				x.Probe("c03.colliding-signature")
			}
		}
	}
	for i := 0; i < 4; i++ {
		var sg solana.Signature
		copy(sg[:], r.Bytes(64))
		absSigs = append(absSigs, sg)
	}
	for _, b := range ws {
		if !b.loaded {
			absSigs = append(absSigs, b.w.Txs[0].Sigs[0]) // archived, but in an epoch that is not loaded
		}
	}
	x.Note("absent_slots", len(absSlots))
	x.Note("absent_signatures", len(absSigs))

	x.Sim(runner.SimOpts{Phase: "server", Cfg: dsim.Config{MaxSteps: 20000000, MaxSimTime: 10 * time.Hour}}, func() {
		s := dsim.Active()
		multi := NewMultiEpoch(&Options{EpochSearchConcurrency: conc})
		eps := map[uint64]*Epoch{}
		srvLoad := newServerLoader()
		for _, lw := range loaded {
			ep, err := srvLoad(lw.cfg)
			if err != nil {
				s.Fail("oracle", "a freshly indexed epoch cannot be loaded", err.Error())
			}
			multi.AddEpoch(ep.Epoch(), ep)
			eps[ep.Epoch()] = ep
		}
		handler := newMultiEpochHandler(multi, nil)
		ctx := context.Background()
		if warmCache {
			// the genuine keys are fetched (and cached) before the colliding lookups
			for _, lw := range loaded {
				for _, b := range lw.w.Blocks {
					jsonRPC(handler, "getBlock", []any{b.Slot, map[string]any{"encoding": "base64", "maxSupportedTransactionVersion": 0}})
				}
			}
		}
		for _, a := range absSlots {
			st, body := jsonRPC(handler, "getBlock", []any{a.slot, map[string]any{"encoding": "base64", "maxSupportedTransactionVersion": 0, "transactionDetails": "full"}})
			var reply struct {
				Result json.RawMessage `json:"result"`
				Error  *struct {
					Code int `json:"code"`
				} `json:"error"`
			}
			if err := json.Unmarshal(body, &reply); err != nil {
				x.Failf("oracle", "getBlock for an absent slot gave an unparsable response", "slot %d (%s): status %d body %s", a.slot, a.why, st, clipB(body))
				continue
			}
			if reply.Error == nil && len(reply.Result) > 0 && string(reply.Result) != "null" {
				if x.Failf("oracle", "getBlock for a slot without a block returned a block", "slot %d (%s): %s", a.slot, a.why, clipB(reply.Result)) {
					return
				}
			}
			resp, err := multi.GetBlock(ctx, &old_faithful_grpc.BlockRequest{Slot: a.slot})
			if err == nil {
				if x.Failf("oracle", "gRPC GetBlock for a slot without a block returned a block", "slot %d (%s): returned block of slot %d", a.slot, a.why, resp.Slot) {
					return
				}
			} else if c := status.Code(err); c != codes.NotFound && c != codes.Internal && c != codes.Unavailable {
				_ = c
			}
		}
		for _, sg := range absSigs {
			st, body := jsonRPC(handler, "getTransaction", []any{sg.String(), map[string]any{"encoding": "base64", "maxSupportedTransactionVersion": 0}})
			var reply struct {
				Result json.RawMessage `json:"result"`
				Error  *struct {
					Code int `json:"code"`
				} `json:"error"`
			}
			if err := json.Unmarshal(body, &reply); err != nil {
				x.Failf("oracle", "getTransaction for an absent signature gave an unparsable response", "status %d body %s", st, clipB(body))
				continue
			}
			if reply.Error == nil && len(reply.Result) > 0 && string(reply.Result) != "null" {
				if x.Failf("oracle", "getTransaction for a signature that is not archived returned a transaction", "%s: %s", sg, clipB(reply.Result)) {
					return
				}
			}
			if resp, err := multi.GetTransaction(ctx, &old_faithful_grpc.TransactionRequest{Signature: sg[:]}); err == nil {
				if x.Failf("oracle", "gRPC GetTransaction for a signature that is not archived returned a transaction", "%s: slot %d", sg, resp.Slot) {
					return
				}
			}
		}
		// fetching by CID: a CID that is not in this CAR (another world's object, a random CID)
		for _, lw := range loaded {
			ep := eps[lw.w.Epoch]
			var foreign []*world.Object
			for _, other := range ws {
				if other != lw {
					foreign = append(foreign, other.w.Objects[r.Intn(len(other.w.Objects))])
				}
			}
			for _, o := range foreign {
				// the epochs of a server share one cache keyed by CID: the object of another loaded
				// epoch may legitimately be answered from it, but only with the bytes of that CID
				if data, err := ep.GetNodeByCid(ctx, o.Cid); err == nil && !bytes.Equal(data, o.Data) {
					if x.Failf("oracle", "fetching a CID that is not in the CAR returned bytes stored under a different CID", "%s: %d bytes", o.Cid, len(data)) {
						return
					}
				}
			}
			rc := world.CidOf(r.Bytes(20))
			if data, err := ep.GetNodeByCid(ctx, rc); err == nil {
				if x.Failf("oracle", "fetching a CID that is not in the CAR returned bytes", "%s: %d bytes", rc, len(data)) {
					return
				}
			}
		}
		s.QuiesceTimers()
		multi.Close()
	})
	_ = fasthttp.StatusOK
}

func leU64(b []byte) uint64 {
	var v uint64
	for i := 0; i < 8 && i < len(b); i++ {
		v |= uint64(b[i]) << (8 * uint(i))
	}
	return v
}
