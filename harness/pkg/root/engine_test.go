package main

import (
	"context"
	"dsim/simtime"
	"fmt"
	"io"
	"os"
	"path/filepath"
	"strings"
	"sync"
	"time"

	"dsim"
	"dsim/runner"

	"github.com/rpcpool/yellowstone-faithful/zzverif/world"
	"k8s.io/klog/v2"
)

// Shared pieces of the whole-server simulations (package main scenarios).

func init() {
	afterUnaryReturn = func() {
		if s := dsim.Active(); s != nil && !s.Stopping() {
			if s.Tape().Bool(0.3) {
				// descheduled for long: the other requests go on until they block themselves
				simtime.Sleep(50 * time.Microsecond)
				return
			}
			for i := 0; i < 3; i++ {
				s.Yield("grpc-serialise")
			}
		}
	}
	klog.LogToStderr(false)
	klog.SetOutput(io.Discard)
}

// engineKnobs are the knobs every server-engine run sets: pure preallocation hints lowered so
// that building an epoch costs milliseconds instead of gigabytes of address space.
func engineKnobs(extra map[string]int) {
	k := map[string]int{"bucketteer.prealloc": 4, "gsfa.mapCap": 1 << 10, "gsfa.mapCap2": 1 << 10}
	for n, v := range extra {
		k[n] = v
	}
	dsim.SetKnobs(k)
}

// tapeRng adapts a dsim.Rand to the world generator's Rng.
type tapeRng struct{ r *dsim.Rand }

func (t tapeRng) Intn(n int) int { return t.r.Intn(n) }
func (t tapeRng) Uint64() uint64 { return t.r.Uint64() }

// simReporter turns the model checks written for *testing.T into violations of the current run.
// The signature of a violation is the format string of the failed comparison (stable facts, no values).
type simReporter struct {
	x      *runner.X
	prefix string
}

type stopCheck struct{}

func (r *simReporter) Helper() {}
func (r *simReporter) Errorf(format string, args ...any) {
	r.x.Failf("oracle", r.prefix+sigOfFormat(format), format, args...)
}
func (r *simReporter) Fatalf(format string, args ...any) {
	r.x.Failf("oracle", r.prefix+sigOfFormat(format), format, args...)
	panic(stopCheck{})
}
func (r *simReporter) Fatal(args ...any) {
	r.x.Failf("oracle", r.prefix+"fatal", "%s", fmt.Sprint(args...))
	panic(stopCheck{})
}

func sigOfFormat(f string) string {
	f = strings.ReplaceAll(f, "\n", " ")
	if len(f) > 120 {
		f = f[:120]
	}
	return f
}

// guard runs fn and swallows the stopCheck panic of simReporter.Fatalf.
func guard(fn func()) {
	defer func() {
		if r := recover(); r != nil {
			if _, ok := r.(stopCheck); ok {
				return
			}
			panic(r)
		}
	}()
	fn()
}

// runQuiet runs fn under a private, schedule-free simulation (own tape, run-to-block): used for
// set-up work such as building the gsfa index, whose writer otherwise waits one real second.
func runQuiet(fn func()) *dsim.Info {
	return dsim.Run(dsim.NewTape(12345), dsim.Config{ForceStrategy: true, Strategy: dsim.StratRunToBlock, TimerRaceP: 0, MaxSteps: 50000000}, fn)
}

var muteOnce sync.Once

// muteProgress silences the progress output createAllIndexes prints to os.Stderr.
func muteProgress() {
	muteOnce.Do(func() {
		if f, err := os.OpenFile(os.DevNull, os.O_WRONLY, 0); err == nil {
			os.Stderr = f
		}
	})
}

// buildWorldDir materialises a world (CAR + every index + config) under dir, outside any main
// simulation: the gsfa part runs under a private quiet simulation.
func buildWorldDir(dir string, w *world.World, withGsfa bool) (cfg string, err error) {
	muteProgress()
	if dsim.Active() != nil {
		return buildEpochDir(dir, w, withGsfa)
	}
	// Instrumented concurrent code never runs outside a simulation: a goroutine it leaves behind
	// would keep running for real after the next simulation has started.
	info := runQuiet(func() { cfg, err = buildEpochDir(dir, w, withGsfa) })
	if info.Outcome != "ok" && err == nil {
		err = fmt.Errorf("index build under the quiet simulation ended with %s: %s", info.Outcome, info.Detail)
	}
	return cfg, err
}

// pooled worlds: a fixed family per process, built on first use and reused by every run.
type pooledWorld struct {
	w   *world.World
	cfg string
	dir string
}

var (
	poolMu sync.Mutex
	pool   = map[string]*pooledWorld{}
)

func poolDir() string {
	base := os.Getenv("VERIF_SCRATCH")
	if base == "" {
		base = os.TempDir()
	}
	d := filepath.Join(base, fmt.Sprintf("pool-%08d", os.Getpid()%100000000))
	os.MkdirAll(d, 0o755)
	return d
}

// getPooledWorld returns world number id of family fam (deterministic in (fam, id)).
func getPooledWorld(fam string, id int, mk func(id int) (world.Params, uint64), withGsfa bool) (*pooledWorld, error) {
	poolMu.Lock()
	defer poolMu.Unlock()
	key := fmt.Sprintf("%s-%d-%v", fam, id, withGsfa)
	if p, ok := pool[key]; ok {
		return p, nil
	}
	params, seed := mk(id)
	w := world.Generate(tapeRng{dsim.NewRand(seed)}, params)
	dir := filepath.Join(poolDir(), key)
	os.MkdirAll(dir, 0o755)
	saved := dsimKnobsSnapshot()
	engineKnobs(nil)
	cfg, err := buildWorldDir(dir, w, withGsfa)
	dsim.SetKnobs(saved)
	if err != nil {
		return nil, err
	}
	p := &pooledWorld{w: w, cfg: cfg, dir: dir}
	pool[key] = p
	return p, nil
}

func dsimKnobsSnapshot() map[string]int { return dsim.Knobs() }

var _ = context.Background
