package main

import (
	"bytes"
	"context"
	"dsim/simos"
	"dsim/simsync"
	"fmt"
	deprecatedbucketteer "github.com/rpcpool/yellowstone-faithful/deprecated/bucketteer"
	"github.com/rpcpool/yellowstone-faithful/deprecated/compactindex"
	"github.com/rpcpool/yellowstone-faithful/deprecated/compactindex36"
	"os"
	"path/filepath"
	"strings"
	"time"

	"dsim"
	"dsim/runner"

	"github.com/gagliardetto/solana-go"
	"github.com/ipfs/go-cid"
	"github.com/rpcpool/yellowstone-faithful/blocktimeindex"
	"github.com/rpcpool/yellowstone-faithful/bucketteer"
	"github.com/rpcpool/yellowstone-faithful/gsfa"
	"github.com/rpcpool/yellowstone-faithful/indexes"
	"github.com/rpcpool/yellowstone-faithful/indexmeta"
	"github.com/rpcpool/yellowstone-faithful/zzverif/world"
)

// C10: an epoch is served only from indexes built for that epoch and CAR (fault enumeration
// over the identity fields of every index file of an epoch config).
func init() { runner.Register("C10", scenarioC10) }

var c10roles = []string{"cid_to_offset_and_size", "slot_to_cid", "sig_to_cid", "sig_exists", "slot_to_blocktime", "gsfa"}

type c10set struct {
	epoch uint64
	car   string
	files map[string]string // role -> path (gsfa: directory)
}

func (s c10set) clone() c10set {
	m := map[string]string{}
	for k, v := range s.files {
		m[k] = v
	}
	return c10set{epoch: s.epoch, car: s.car, files: m}
}

func (s c10set) write(path string) string {
	var sb strings.Builder
	fmt.Fprintf(&sb, "epoch: %d\nversion: 1\ndata:\n  car:\n    uri: '%s'\nindexes:\n", s.epoch, s.car)
	for _, r := range c10roles {
		if p, ok := s.files[r]; ok {
			fmt.Fprintf(&sb, "  %s:\n    uri: '%s'\n", r, p)
		}
	}
	os.WriteFile(path, []byte(sb.String()), 0o644)
	return path
}

// c10setFromDir reads the file set buildEpochDir produced.
func c10setFromDir(b *builtWorld) (c10set, error) {
	s := c10set{epoch: b.w.Epoch, car: filepath.Join(b.dir, fmt.Sprintf("epoch-%d.car", b.w.Epoch)), files: map[string]string{}}
	pats := map[string]string{"cid_to_offset_and_size": "*cid-to-offset-and-size.index", "slot_to_cid": "*slot-to-cid.index", "sig_to_cid": "*sig-to-cid.index", "sig_exists": "*sig-exists.index", "slot_to_blocktime": "*slot-to-blocktime.index", "gsfa": "*gsfa.indexdir"}
	for role, pat := range pats {
		m, _ := filepath.Glob(filepath.Join(b.dir, "indexes", pat))
		if len(m) != 1 {
			return s, fmt.Errorf("role %s: %d files match %s", role, len(m), pat)
		}
		s.files[role] = m[0]
	}
	return s, nil
}

// writeLegacy writes the configuration with indexes.cid_to_offset (deprecated) in place of
// cid_to_offset_and_size.
func (s c10set) writeLegacy(path string) string {
	var sb strings.Builder
	fmt.Fprintf(&sb, "epoch: %d\nversion: 1\ndata:\n  car:\n    uri: '%s'\nindexes:\n", s.epoch, s.car)
	for _, r := range c10roles {
		p, ok := s.files[r]
		if !ok {
			continue
		}
		if r == "cid_to_offset_and_size" {
			r = "cid_to_offset"
		}
		fmt.Fprintf(&sb, "  %s:\n    uri: '%s'\n", r, p)
	}
	os.WriteFile(path, []byte(sb.String()), 0o644)
	return path
}

// c10legacySet derives from a genuine file set the one of a legacy configuration: a deprecated
// cid-to-offset index (compactindex, 8-byte offsets) and a sig-exists file in the legacy format,
// both built for world w with the deprecated writers.
func c10legacySet(genuine c10set, w *world.World, dir string) (c10set, error) {
	out := genuine.clone()
	os.MkdirAll(dir, 0o755)
	tmp := filepath.Join(dir, "tmp")
	os.MkdirAll(tmp, 0o755)
	b, err := compactindex.NewBuilder(tmp, uint(len(w.Objects)), uint64(len(w.CAR)))
	if err != nil {
		return out, err
	}
	defer b.Close()
	for _, o := range w.Objects {
		if err := b.Insert(o.Cid.Bytes(), o.Offset); err != nil {
			return out, err
		}
	}
	p := filepath.Join(dir, "cid-to-offset.old.index")
	f, err := simos.Create(p)
	if err != nil {
		return out, err
	}
	if err := b.Seal(context.Background(), f); err != nil {
		f.Close()
		return out, err
	}
	if err := f.Close(); err != nil {
		return out, err
	}
	out.files["cid_to_offset_and_size"] = p
	sp := filepath.Join(dir, "sig-exists.old.index")
	sw, err := deprecatedbucketteer.NewWriter(sp)
	if err != nil {
		return out, err
	}
	for _, tx := range w.Txs {
		sw.Put(tx.Sig())
	}
	if _, err := sw.Seal(map[string]string{}); err != nil {
		return out, err
	}
	if err := sw.Close(); err != nil {
		return out, err
	}
	out.files["sig_exists"] = sp
	return out, nil
}

// c10oldFormat builds a genuine slot-to-cid or sig-to-cid index of world w in the old file format
// (deprecated/compactindex36: 36-byte values, no metadata).
func c10oldFormat(role string, w *world.World, dir string) (string, error) {
	os.MkdirAll(dir, 0o755)
	tmp := filepath.Join(dir, "tmp")
	os.MkdirAll(tmp, 0o755)
	n := len(w.Blocks)
	if role == "sig_to_cid" {
		n = len(w.Txs)
	}
	b, err := compactindex36.NewBuilder(tmp, uint(n), uint64(n)*80+4096)
	if err != nil {
		return "", err
	}
	defer b.Close()
	put := func(key []byte, c cid.Cid) error {
		var v [36]byte
		if copy(v[:], c.Bytes()) != 36 {
			return fmt.Errorf("CID of %d bytes", c.ByteLen())
		}
		return b.Insert(key, v)
	}
	if role == "sig_to_cid" {
		for _, tx := range w.Txs {
			sig := tx.Sig()
			if err := put(sig[:], tx.Cid); err != nil {
				return "", err
			}
		}
	} else {
		for _, bl := range w.Blocks {
			if err := put(indexes.Uint64tob(bl.Slot), bl.Cid); err != nil {
				return "", err
			}
		}
	}
	path := filepath.Join(dir, role+".old.index")
	f, err := simos.Create(path)
	if err != nil {
		return "", err
	}
	if err := b.Seal(context.Background(), f); err != nil {
		f.Close()
		return "", err
	}
	return path, f.Close()
}

// c10rebuild builds the index of one role for world w with the real writer, with the epoch and/or
// root CID recorded in it replaced (everything else as in a genuine build).
func c10rebuild(role string, w *world.World, epoch uint64, root cid.Cid, dir string) (string, error) {
	ctx := context.Background()
	os.MkdirAll(dir, 0o755)
	tmp := filepath.Join(dir, "tmp-"+role)
	os.MkdirAll(tmp, 0o755)
	switch role {
	case "cid_to_offset_and_size":
		wr, err := indexes.NewWriter_CidToOffsetAndSize(epoch, root, indexes.NetworkMainnet, tmp, uint64(len(w.Objects)))
		if err != nil {
			return "", err
		}
		defer wr.Close()
		for _, o := range w.Objects {
			if err := wr.Put(o.Cid, o.Offset, o.SectionLen); err != nil {
				return "", err
			}
		}
		if err := wr.Seal(ctx, dir); err != nil {
			return "", err
		}
		return wr.GetFilepath(), nil
	case "slot_to_cid":
		wr, err := indexes.NewWriter_SlotToCid(epoch, root, indexes.NetworkMainnet, tmp, uint64(len(w.Blocks)))
		if err != nil {
			return "", err
		}
		defer wr.Close()
		for _, b := range w.Blocks {
			if err := wr.Put(b.Slot, b.Cid); err != nil {
				return "", err
			}
		}
		if err := wr.Seal(ctx, dir); err != nil {
			return "", err
		}
		return wr.GetFilepath(), nil
	case "sig_to_cid":
		wr, err := indexes.NewWriter_SigToCid(epoch, root, indexes.NetworkMainnet, tmp, uint64(len(w.Txs)))
		if err != nil {
			return "", err
		}
		defer wr.Close()
		for _, tx := range w.Txs {
			if err := wr.Put(tx.Sig(), tx.Cid); err != nil {
				return "", err
			}
		}
		if err := wr.Seal(ctx, dir); err != nil {
			return "", err
		}
		return wr.GetFilepath(), nil
	case "sig_exists":
		p := filepath.Join(dir, "rebuilt-sig-exists.index")
		wr, err := bucketteer.NewWriter(p)
		if err != nil {
			return "", err
		}
		for _, tx := range w.Txs {
			wr.Put(tx.Sig())
		}
		meta := indexmeta.Meta{}
		meta.AddUint64(indexmeta.MetadataKey_Epoch, epoch)
		meta.AddCid(indexmeta.MetadataKey_RootCid, root)
		meta.AddString(indexmeta.MetadataKey_Network, string(indexes.NetworkMainnet))
		if _, err := wr.Seal(meta); err != nil {
			return "", err
		}
		return p, wr.Close()
	case "slot_to_blocktime":
		ix := blocktimeindex.NewForEpoch(epoch)
		for _, b := range w.Blocks {
			ix.Set(epoch*world.SlotsPerEpoch+(b.Slot-w.FirstSlot), b.BlockTime)
		}
		p := filepath.Join(dir, "rebuilt-slot-to-blocktime.index")
		f, err := os.Create(p)
		if err != nil {
			return "", err
		}
		defer f.Close()
		_, err = ix.WriteTo(f)
		return p, err
	case "gsfa":
		gdir := filepath.Join(dir, "rebuilt-gsfa.indexdir")
		meta := indexmeta.Meta{}
		meta.AddUint64(indexmeta.MetadataKey_Epoch, epoch)
		meta.AddCid(indexmeta.MetadataKey_RootCid, root)
		meta.AddString(indexmeta.MetadataKey_Network, string(indexes.NetworkMainnet))
		gw, err := gsfa.NewGsfaWriter(gdir, meta, epoch, root, indexes.NetworkMainnet, tmp)
		if err != nil {
			return "", err
		}
		for _, tx := range w.Txs {
			keys := append(append(append(solana.PublicKeySlice{}, tx.Static...), tx.LoadedWritable...), tx.LoadedReadonly...)
			if err := gw.Push(tx.Object.Offset, tx.Object.SectionLen, tx.Slot, keys, true, !tx.Failed, tx.IsVote); err != nil {
				return "", err
			}
		}
		return gdir, gw.Close()
	}
	return "", fmt.Errorf("unknown role %s", role)
}

func scenarioC10(x *runner.X) {
	t := x.Tape
	engineKnobs(nil)
	e1 := uint64(t.Pick(3, 1, 50))
	e2 := e1 + uint64(t.Range(1, 4))
	var ws []*builtWorld
	seedDraw := t.SubRand().Uint64()
	shape := drawWorldParams(t, e1, 1, true)
	shape.SplitTxData = false
	shape.BigObjects = false
	for i, e := range []uint64{e1, e2} {
		p := shape
		p.Epoch = e
		p.Salt = uint64(100 + i)
		// same draws, same shape: offsets stay in range when files are swapped between the worlds
		w := world.Generate(tapeRng{dsim.NewRand(seedDraw)}, p)
		dir := filepath.Join(x.TempDir(), fmt.Sprintf("w%d", i+1))
		cfg, err := buildWorldDir(dir, w, true)
		if err != nil {
			x.Failf("oracle", "index generation failed on a well-formed epoch CAR", "%s: %v", w.Describe(), err)
			return
		}
		ws = append(ws, &builtWorld{w: w, cfg: cfg, dir: dir})
		x.Digest(w.Describe())
	}
	w1, w2 := ws[0], ws[1]
	x.Note("worlds", describeWorlds(ws))
	s1, err := c10setFromDir(w1)
	if err != nil {
		x.Failf("harness", "file set", "%v", err)
		return
	}
	s2, err := c10setFromDir(w2)
	if err != nil {
		x.Failf("harness", "file set", "%v", err)
		return
	}
	type fault struct {
		role string
		kind string
		path string
	}
	var singles []fault
	x.Sim(runner.SimOpts{Phase: "identity-faults", Cfg: dsim.Config{MaxSteps: 100000000, MaxSimTime: 1000 * time.Hour, NoTimerRace: true, StmtYields: true}}, func() {
		s := dsim.Active()
		rebuilt := filepath.Join(x.TempDir(), "rebuilt")
		for _, role := range c10roles {
			singles = append(singles, fault{role, "file of another epoch and CAR in the same role", s2.files[role]})
			p, err := c10rebuild(role, w1.w, e2, w1.w.Root, filepath.Join(rebuilt, role+"-epoch"))
			if err != nil {
				s.Fail("harness", "rebuild with another epoch", role+": "+err.Error())
			}
			singles = append(singles, fault{role, "records a different epoch", p})
			// an epoch number that agrees with the configured one in its low 32 bits (an identity
			// check that narrows the stored value would accept it); a writer that cannot produce
			// such a file is not a fault of the loader, the case is then skipped
			if pf, err := c10rebuild(role, w1.w, e1+(uint64(1+t.Intn(3))<<32), w1.w.Root, filepath.Join(rebuilt, role+"-epoch-far")); err == nil {
				singles = append(singles, fault{role, "records an epoch that differs from the configured one by a multiple of 2^32", pf})
				x.Probe("c10.far_epoch_file")
			}
			if role != "slot_to_blocktime" {
				p, err := c10rebuild(role, w1.w, e1, w2.w.Root, filepath.Join(rebuilt, role+"-root"))
				if err != nil {
					s.Fail("harness", "rebuild with another root", role+": "+err.Error())
				}
				singles = append(singles, fault{role, "records a different root CID", p})
			}
		}
		// files swapped between roles (wrong kind)
		for _, role := range c10roles {
			if role == "gsfa" {
				continue
			}
			for _, other := range c10roles {
				if other == role || other == "gsfa" {
					continue
				}
				singles = append(singles, fault{role, "file of kind " + other, s1.files[other]})
			}
		}
		pk, _ := filepath.Glob(filepath.Join(s1.files["gsfa"], "*pubkey-to-offset-and-size*"))
		if len(pk) == 1 {
			for _, role := range []string{"cid_to_offset_and_size", "slot_to_cid", "sig_to_cid"} {
				singles = append(singles, fault{role, "file of kind pubkey-to-offset-and-size", pk[0]})
			}
		}
		cfgPath := filepath.Join(x.TempDir(), "case.yml")
		tryLoad := func(set c10set) (*Epoch, error) {
			return loadEpoch(set.write(cfgPath))
		}
		// 0. the genuine set loads and reads back what was written
		ep, err := tryLoad(s1)
		if err != nil {
			x.Failf("oracle", "the genuine set of indexes does not load", "%v", err)
			return
		}
		type metaer interface{ Meta() *indexes.Metadata }
		for i, m := range []metaer{ep.cidToOffsetAndSizeIndex, ep.slotToCidIndex, ep.sigToCidIndex} {
			name := []string{"cid-to-offset-and-size", "slot-to-cid", "sig-to-cid"}[i]
			md := m.Meta()
			if md.Epoch != e1 || !md.RootCid.Equals(w1.w.Root) || md.Network != indexes.NetworkMainnet {
				x.Failf("oracle", "identity metadata written at build time is not read back unchanged", "%s: epoch %d root %s network %s; written %d %s mainnet", name, md.Epoch, md.RootCid, md.Network, e1, w1.w.Root)
			}
		}
		if !bytes.Equal(ep.cidToOffsetAndSizeIndex.Meta().IndexKind, indexes.Kind_CidToOffsetAndSize) || !bytes.Equal(ep.slotToCidIndex.Meta().IndexKind, indexes.Kind_SlotToCid) || !bytes.Equal(ep.sigToCidIndex.Meta().IndexKind, indexes.Kind_SigToCid) {
			x.Failf("oracle", "index kind written at build time is not read back unchanged", "")
		}
		if ge, ok := ep.gsfaReader.Meta().GetUint64(indexmeta.MetadataKey_Epoch); !ok || ge != e1 {
			x.Failf("oracle", "identity metadata written at build time is not read back unchanged", "gsfa epoch %d %v", ge, ok)
		}
		if gr, ok := ep.gsfaReader.Meta().GetCid(indexmeta.MetadataKey_RootCid); !ok || !gr.Equals(w1.w.Root) {
			x.Failf("oracle", "identity metadata written at build time is not read back unchanged", "gsfa root %s %v", gr, ok)
		}
		if ep.blocktimeindex.Epoch() != e1 {
			x.Failf("oracle", "identity metadata written at build time is not read back unchanged", "blocktime epoch %d", ep.blocktimeindex.Epoch())
		}
		ep.Close()
		if x.Failed() {
			return
		}
		// 1. every single fault must fail the load
		for _, f := range singles {
			set := s1.clone()
			set.files[f.role] = f.path
			x.Probe("c10.cases")
			x.Fault("index-swap")
			if ep, err := tryLoad(set); err == nil {
				ep.Close()
				if x.Failf("oracle", "an epoch loads although its "+f.role+" index "+strings.SplitN(f.kind, " of kind", 2)[0], "config epoch %d root %s; %s <- %s (%s)", e1, w1.w.Root, f.role, f.kind, filepath.Base(f.path)) {
					return
				}
			}
		}
		// 2. every pair of identity faults on two different roles must fail the load
		var ident []fault
		for _, f := range singles {
			if !strings.HasPrefix(f.kind, "file of kind") {
				ident = append(ident, f)
			}
		}
		for i := 0; i < len(ident); i++ {
			for j := i + 1; j < len(ident); j++ {
				if ident[i].role == ident[j].role {
					continue
				}
				set := s1.clone()
				set.files[ident[i].role] = ident[i].path
				set.files[ident[j].role] = ident[j].path
				x.Probe("c10.cases")
				x.Fault("index-swap-pair")
				if ep, err := tryLoad(set); err == nil {
					ep.Close()
					if x.Failf("oracle", "an epoch loads although two of its indexes carry a foreign identity", "%s (%s) and %s (%s)", ident[i].role, ident[i].kind, ident[j].role, ident[j].kind) {
						return
					}
				}
			}
		}
		// 2b. per-file formats: the loader accepts an old-format (compactindex36, no identity metadata)
		// slot-to-cid or sig-to-cid file next to current-format files. With one of the two in the old
		// format, every identity fault on any OTHER role must still fail the load.
		for _, oldRole := range []string{"slot_to_cid", "sig_to_cid"} {
			oldPath, err := c10oldFormat(oldRole, w1.w, filepath.Join(rebuilt, "old-"+oldRole))
			if err != nil {
				s.Fail("harness", "build an old-format index", oldRole+": "+err.Error())
			}
			base := s1.clone()
			base.files[oldRole] = oldPath
			if ep, err := tryLoad(base); err != nil {
				x.Probe("c10.mixed-format-genuine-refused")
				continue
			} else {
				ep.Close()
				x.Probe("c10.mixed-format-genuine-loaded")
			}
			for _, f := range ident {
				if f.role == oldRole {
					continue
				}
				set := base.clone()
				set.files[f.role] = f.path
				x.Probe("c10.cases")
				x.Fault("index-swap-mixed-format")
				if ep, err := tryLoad(set); err == nil {
					ep.Close()
					if x.Failf("oracle", "an epoch loads although its "+f.role+" index "+f.kind+" (next to an old-format "+oldRole+" file)", "config epoch %d root %s; %s <- %s", e1, w1.w.Root, f.role, filepath.Base(f.path)) {
						return
					}
				}
			}
		}
		// 2c. the legacy configuration (deprecated cid_to_offset index, which carries no identity, plus
		// the legacy sig-exists format): the remaining indexes must still be checked against the
		// configured epoch and against each other
		if legacy, err := c10legacySet(s1, w1.w, filepath.Join(rebuilt, "legacy")); err != nil {
			s.Fail("harness", "build the legacy index files", err.Error())
		} else {
			if ep, err := loadEpoch(legacy.writeLegacy(cfgPath)); err != nil {
				x.Probe("c10.legacy-genuine-refused")
			} else {
				ep.Close()
				x.Probe("c10.legacy-genuine-loaded")
				for _, f := range ident {
					if f.role == "cid_to_offset_and_size" || f.role == "sig_exists" {
						continue
					}
					set := legacy.clone()
					set.files[f.role] = f.path
					x.Probe("c10.cases")
					x.Fault("index-swap-legacy-config")
					if ep, err := loadEpoch(set.writeLegacy(cfgPath)); err == nil {
						ep.Close()
						if x.Failf("oracle", "an epoch loads although its "+f.role+" index "+f.kind+" (legacy configuration)", "config epoch %d root %s; %s <- %s", e1, w1.w.Root, f.role, filepath.Base(f.path)) {
							return
						}
					}
				}
			}
		}
		// 3. the CAR of another epoch under the genuine indexes: CID-addressed fetches must fail
		set := s1.clone()
		set.car = s2.car
		x.Fault("car-swap")
		if ep, err := tryLoad(set); err == nil {
			// one long-lived handle, every CID asked three times: what an earlier fetch left in the
			// epoch's caches must not turn a later one into a success
			// first the reads by location that the address index and the streams do (no CID to compare
			// with): whatever they leave in the caches must not satisfy a later fetch by CID
			for _, o := range w1.w.Objects {
				ep.GetNodeByOffsetAndSize(context.Background(), nil, &indexes.OffsetAndSize{Offset: o.Offset, Size: o.SectionLen})
			}
		rounds:
			for round := 0; round < 3; round++ {
				for _, o := range w1.w.Objects {
					data, err := ep.GetNodeByCid(context.Background(), o.Cid)
					if err == nil && !bytes.Equal(data, o.Data) {
						if x.Failf("oracle", "with a foreign CAR a CID-addressed fetch returns another object's bytes", "round %d: %s %s: %d bytes", round, world.KindName(o.Kind), o.Cid, len(data)) {
							break rounds
						}
					}
				}
			}
			// and both kinds of read at the same time, as concurrent requests do: a fetch by CID must
			// not be satisfied by a read by location that happens to be in flight for the same place
			var cwg simsync.WaitGroup
			for _, o := range w1.w.Objects {
				o := o
				cwg.Add(2)
				dsim.Go("by-location", func() {
					defer cwg.Done()
					ep.GetNodeByOffsetAndSize(context.Background(), nil, &indexes.OffsetAndSize{Offset: o.Offset, Size: o.SectionLen})
				})
				dsim.Go("by-cid", func() {
					defer cwg.Done()
					data, err := ep.GetNodeByCid(context.Background(), o.Cid)
					if err == nil && !bytes.Equal(data, o.Data) {
						x.Failf("oracle", "with a foreign CAR a CID-addressed fetch returns another object's bytes", "while a read by location of the same place is in flight: %s %s: %d bytes", world.KindName(o.Kind), o.Cid, len(data))
					}
				})
				cwg.Wait()
				if x.Failed() {
					break
				}
			}
			cwg.Wait()
			ep.Close()
		} else {
			x.Probe("c10.foreign-car-rejected-at-load")
		}
		// 4. the same with the cache the epochs of a server share: the genuine other epoch is loaded
		// next to the epoch with the foreign CAR and read first, so the shared cache is warm with
		// sections that lie at the same offsets (the two worlds have the same layout)
		srvLoad := newServerLoader()
		if ep2, err := srvLoad(s2.write(filepath.Join(x.TempDir(), "genuine2.yml"))); err == nil {
			for _, o := range w2.w.Objects {
				data, err := ep2.GetNodeByCid(context.Background(), o.Cid)
				if err != nil || !bytes.Equal(data, o.Data) {
					x.Failf("oracle", "a genuine epoch does not return an object of its CAR", "%s %s: %v", world.KindName(o.Kind), o.Cid, err)
					break
				}
			}
			x.Fault("car-swap-shared-cache")
			if ep1, err := srvLoad(set.write(filepath.Join(x.TempDir(), "foreigncar.yml"))); err == nil {
				for _, o := range w1.w.Objects {
					ep1.GetNodeByOffsetAndSize(context.Background(), nil, &indexes.OffsetAndSize{Offset: o.Offset, Size: o.SectionLen})
				}
			shared:
				for round := 0; round < 2; round++ {
					for _, o := range w1.w.Objects {
						data, err := ep1.GetNodeByCid(context.Background(), o.Cid)
						if err == nil && !bytes.Equal(data, o.Data) {
							if x.Failf("oracle", "with a foreign CAR a CID-addressed fetch returns another object's bytes", "next to a loaded epoch sharing the cache, round %d: %s %s: %d bytes", round, world.KindName(o.Kind), o.Cid, len(data)) {
								break shared
							}
						}
					}
				}
				ep1.Close()
			}
			// and the other way round: the genuine epoch after the broken one has been read
			for _, o := range w2.w.Objects {
				data, err := ep2.GetNodeByCid(context.Background(), o.Cid)
				if err != nil || !bytes.Equal(data, o.Data) {
					x.Failf("oracle", "a genuine epoch does not return an object of its CAR", "after an epoch with a foreign CAR was read through the shared cache: %s %s: %v", world.KindName(o.Kind), o.Cid, err)
					break
				}
			}
			ep2.Close()
		}
	})
	x.SetNontrivial(true)
}
