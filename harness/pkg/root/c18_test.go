package main

import (
	"context"
	"fmt"
	"sort"
	"time"

	"dsim"
	"dsim/runner"
	"dsim/simctx"
	"dsim/simtime"
)

// C18: FirstSuccess / JobGroup under every completion order the scheduler can produce.
func init() { runner.Register("C18", scenarioC18) }

type c18job struct {
	ok     bool
	yields int
	sleep  int // simulated milliseconds
	val    int
	err    error
}

func scenarioC18(x *runner.X) {
	t := x.Tape
	n := t.Range(0, 5)
	conc := t.Pick(-1, 0, 1, 2, 3, 4, 5)
	cancelled := t.Bool(0.2)
	viaGroup := t.Bool(0.5)
	jobs := make([]c18job, n)
	desc := ""
	for i := range jobs {
		jobs[i] = c18job{ok: t.Bool(0.4), yields: t.Range(0, 3), sleep: t.Pick(0, 0, 1, 5), val: 100 + i, err: fmt.Errorf("job-%d-failed", i)}
		switch t.Intn(8) {
		case 0: // a job-local time-out (e.g. an HTTP client deadline) while the request context is alive
			jobs[i].err = fmt.Errorf("job-%d-failed: %w", i, context.DeadlineExceeded)
		case 1:
			jobs[i].err = fmt.Errorf("job-%d-failed: %w", i, context.Canceled)
		case 2:
			jobs[i].err = ErrNotFound
		case 3: // the job ran a nested group and reports that group's list of errors
			nested := ErrorSlice{}
			for k := t.Range(1, 3); k > 0; k-- {
				nested = append(nested, fmt.Errorf("job-%d-sub-%d-failed", i, k))
			}
			jobs[i].err = nested
		}
		if jobs[i].ok {
			desc += "S"
		} else {
			desc += "F"
		}
		desc += fmt.Sprintf("%d/%d ", jobs[i].yields, jobs[i].sleep)
	}
	cancelAfter := 0
	if cancelled {
		cancelAfter = t.Range(0, 6)
	}
	x.Digest(n, conc, cancelled, viaGroup, desc, cancelAfter)
	x.Note("jobs", desc)
	x.Note("concurrency", conc)
	x.Note("cancelled_ctx", cancelled)

	var gotV int
	var gotErr error
	returned := false
	alive := -1
	x.Sim(runner.SimOpts{Phase: "FirstSuccess", Cfg: dsim.Config{MaxSteps: 20000, MaxSimTime: time.Minute}}, func() {
		s := dsim.Active()
		ctx := context.Background()
		if cancelled {
			c, cancel := simctx.WithCancel(ctx)
			ctx = c
			dsim.Go("canceller", func() {
				for i := 0; i < cancelAfter; i++ {
					s.Yield("canceller")
				}
				cancel()
			})
		}
		fns := make([]JobFunc[int], n)
		for i := range jobs {
			j := jobs[i]
			fns[i] = func(ctx context.Context) (int, error) {
				for k := 0; k < j.yields; k++ {
					s.Yield("job")
				}
				if j.sleep > 0 {
					simtime.Sleep(time.Duration(j.sleep) * time.Millisecond)
				}
				if j.ok {
					return j.val, nil
				}
				return 0, j.err
			}
		}
		if viaGroup {
			g := NewJobGroup[int]()
			for _, f := range fns {
				g.Add(f)
			}
			if conc == -1 && t.Bool(0.5) {
				gotV, gotErr = g.Run(ctx)
			} else {
				gotV, gotErr = g.RunWithConcurrency(ctx, conc)
			}
		} else {
			gotV, gotErr = FirstSuccess(ctx, conc, fns...)
		}
		returned = true
		alive = s.QuiesceTimers()
	})
	if x.Failed() {
		return
	}
	if !returned {
		x.Failf("liveness", "FirstSuccess did not return", "run ended without FirstSuccess returning")
		return
	}
	anyOK := false
	okVals := map[int]bool{}
	var allErrs []string
	for _, j := range jobs {
		if j.ok {
			anyOK = true
			okVals[j.val] = true
		} else {
			allErrs = append(allErrs, j.err.Error())
		}
	}
	sort.Strings(allErrs)
	if gotErr == nil && !okVals[gotV] {
		x.Failf("oracle", "success with a value no job produced", "returned (%d, nil); successful job values: %v; jobs: %s", gotV, okVals, desc)
		return
	}
	if cancelled {
		// only termination and "no fabricated value" are required once the context may be dead
		return
	}
	if alive != 0 {
		x.Failf("oracle", "goroutines still alive after FirstSuccess returned and the system went idle", "%d goroutines alive", alive)
		return
	}
	if anyOK {
		if gotErr != nil {
			x.Failf("oracle", "a job succeeded but an error was returned", "returned error %v; jobs: %s conc=%d", gotErr, desc, conc)
		}
		return
	}
	es, ok := gotErr.(ErrorSlice)
	if !ok {
		x.Failf("oracle", "no job succeeded but the result is not the list of errors", "returned (%d, %v) type %T; jobs: %s", gotV, gotErr, gotErr, desc)
		return
	}
	var got []string
	for _, e := range es {
		if e == nil {
			got = append(got, "<nil>")
		} else {
			got = append(got, e.Error())
		}
	}
	sort.Strings(got)
	if fmt.Sprint(got) != fmt.Sprint(allErrs) {
		x.Failf("oracle", "error list is not the complete list of job errors", "got %v want %v; jobs: %s conc=%d", got, allErrs, desc, conc)
	}
}
