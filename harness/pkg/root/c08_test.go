package main

import (
	"bytes"
	"context"
	"encoding/json"
	"fmt"
	"io"
	"math"
	"strings"
	"time"

	"dsim"
	"dsim/runner"
	"dsim/simctx"
	"dsim/simsync"
	"dsim/simtime"

	old_faithful_grpc "github.com/rpcpool/yellowstone-faithful/old-faithful-proto/old-faithful-grpc"
	"github.com/rpcpool/yellowstone-faithful/zzverif/world"
	"github.com/valyala/fasthttp"
)

// C08: no request can crash the server.
func init() { runner.Register("C08", scenarioC08) }

func c08mk(id int) (world.Params, uint64) {
	return world.Params{Epoch: uint64(20 + id), Salt: uint64(800 + id), NumBlocks: 4, MaxEntries: 2, MaxTxPerEntry: 2, NumAccounts: 8, MaxFrameBytes: 150}, uint64(8800 + id)
}

type getStream struct {
	fakeStream
	reqs []*old_faithful_grpc.GetRequest
	pos  int
	got  []*old_faithful_grpc.GetResponse
}

func (g *getStream) Recv() (*old_faithful_grpc.GetRequest, error) {
	if s := dsim.Active(); s != nil && !s.Stopping() {
		s.Yield("stream.recv")
	}
	if g.pos >= len(g.reqs) {
		return nil, io.EOF
	}
	r := g.reqs[g.pos]
	g.pos++
	return r, nil
}
func (g *getStream) Send(r *old_faithful_grpc.GetResponse) error {
	g.got = append(g.got, r)
	return nil
}

// rawHTTP sends an arbitrary request through the handler.
func rawHTTP(handler func(*fasthttp.RequestCtx), method, path string, body []byte, declaredLen int) (int, []byte) {
	var ctx fasthttp.RequestCtx
	ctx.Init(&fasthttp.Request{}, nil, nil)
	ctx.Request.Header.SetMethod(method)
	ctx.Request.SetRequestURI(path)
	ctx.Request.Header.SetContentType("application/json")
	ctx.Request.SetBody(body)
	if declaredLen >= 0 {
		ctx.Request.Header.SetContentLength(declaredLen)
	}
	handler(&ctx)
	return ctx.Response.StatusCode(), append([]byte(nil), ctx.Response.Body()...)
}

func scenarioC08(x *runner.X) {
	t := x.Tape
	r := t.SubRand()
	engineKnobs(nil)
	nLoaded := t.Pick(1, 0, 2, 2)
	var worlds []*pooledWorld
	for i := 0; i < 2; i++ {
		p, err := getPooledWorld("c08", i, c08mk, true)
		if err != nil {
			x.Failf("harness", "cannot build the pooled world", "%v", err)
			return
		}
		worlds = append(worlds, p)
	}
	w0 := worlds[0].w
	goodSlot := w0.Blocks[1].Slot
	goodSig := w0.Txs[0].Sigs[0].String()
	goodAddr := w0.Addresses[0].String()

	// JSON values a hostile client puts where a well-formed request has its parameters
	vals := []string{`null`, `[]`, `{}`, `""`, `"x"`, `0`, `-1`, `1e30`, `18446744073709551616`, `1.5`, `true`, `[null]`, `[[]]`, `[{}]`, `[""]`, `["` + goodSig + `"]`, `[` + fmt.Sprint(goodSlot) + `]`,
		`[-5]`, `[1e30]`, `[18446744073709551615]`, `["` + goodAddr + `", null]`, `["` + goodAddr + `", {"limit": -1}]`, `["` + goodAddr + `", {"limit": "x", "before": 5, "until": []}]`, `["` + goodAddr + `", {"before": "zz"}]`,
		`["not-base58-!!"]`, `[` + fmt.Sprint(goodSlot) + `, null]`, `[` + fmt.Sprint(goodSlot) + `, {"encoding": 5}]`, `[` + fmt.Sprint(goodSlot) + `, {"encoding": "nope", "transactionDetails": {}, "rewards": "x", "maxSupportedTransactionVersion": -1}]`,
		`[` + fmt.Sprint(goodSlot) + `, "base64"]`, `["` + goodSig + `", "json"]`, `["` + goodSig + `", {"encoding": []}]`, `[{"a": [1, 2, {"b": null}]}]`, `"` + strings.Repeat("A", 300) + `"`}
	methods := []string{"getBlock", "getTransaction", "getSignaturesForAddress", "getBlockTime", "getSlot", "getVersion", "getFirstAvailableBlock", "getGenesisHash", "getHealth", "nope", ""}
	type hreq struct {
		method, path string
		body         []byte
		declared     int
		desc         string
	}
	mkHTTP := func() hreq {
		m := methods[t.Intn(len(methods))]
		switch t.Intn(12) {
		case 0:
			return hreq{"GET", []string{"/", "/health", "/metrics", "/api/v1/slot-to-cid/" + fmt.Sprint(goodSlot), "/api/v1/slot-to-cid/x", "/api/v1/sig-to-cid/" + goodSig, "/api/v1/sig-to-cid/!!", "/api/v1/", "/api/v1/slot-to-cid/18446744073709551616",
				// percent-encoded bytes that are not UTF-8, in the last and in an inner path element
				"/api/v1/%ff/5", "/api/v1/slot-to-cid%c3%28/5", "/api/v1/slot-to-cid/%ff%fe", "/%c0%af/%80/x", "/api/v1/sig-to-cid/%00"}[t.Intn(14)], nil, -1, "GET"}
		case 1:
			return hreq{[]string{"PUT", "DELETE", "OPTIONS", "HEAD"}[t.Intn(4)], "/", []byte(`{}`), -1, "odd verb"}
		case 2: // params member missing
			return hreq{"POST", "/", []byte(fmt.Sprintf(`{"jsonrpc":"2.0","id":1,"method":%q}`, m)), -1, m + " without params"}
		case 3: // truncated JSON
			b := []byte(fmt.Sprintf(`{"jsonrpc":"2.0","id":1,"method":%q,"params":%s}`, m, vals[t.Intn(len(vals))]))
			return hreq{"POST", "/", b[:t.Intn(len(b))], -1, m + " truncated"}
		case 4: // not JSON at all
			return hreq{"POST", "/", r.Bytes(t.Range(0, 64)), -1, "random bytes"}
		case 5: // batch / scalar top level
			return hreq{"POST", "/", []byte([]string{`[]`, `[{"jsonrpc":"2.0","id":1,"method":"getSlot"}]`, `5`, `"x"`, `null`, `{"method":5}`, `{"jsonrpc":"2.0","id":{"a":1},"method":"getSlot","params":[]}`, `{"id":null,"method":null,"params":null}`}[t.Intn(8)]), -1, "odd top level"}
		case 6: // oversized / lying content length
			b := []byte(fmt.Sprintf(`{"jsonrpc":"2.0","id":1,"method":%q,"params":[%q]}`, m, strings.Repeat("z", t.Pick(900, 1100, 5000))))
			return hreq{"POST", "/", b, t.Pick(-1, 10, 0), m + " oversized"}
		}
		v := vals[t.Intn(len(vals))]
		if t.Bool(0.35) {
			// a well-formed key with a configuration object whose members carry every kind of JSON
			// value, null included: each member is optional in the protocol
			which := t.Intn(3)
			key := []string{fmt.Sprint(goodSlot), `"` + goodSig + `"`, `"` + goodAddr + `"`}[which]
			m = []string{"getBlock", "getTransaction", "getSignaturesForAddress"}[which]
			names := [][]string{{"encoding", "transactionDetails", "rewards", "maxSupportedTransactionVersion", "commitment"}, {"encoding", "maxSupportedTransactionVersion", "commitment"}, {"limit", "before", "until", "minContextSlot", "commitment"}}[which]
			hostile := []string{`null`, `null`, `null`, `5`, `"x"`, `[]`, `{}`, `true`, `false`, `-1`, `1e30`, `"base64"`, `"json"`, `"none"`, `0`}
			var ms []string
			for i := t.Range(1, 3); i > 0; i-- {
				ms = append(ms, fmt.Sprintf("%q: %s", names[t.Intn(len(names))], hostile[t.Intn(len(hostile))]))
			}
			v = "[" + key + ", {" + strings.Join(ms, ", ") + "}]"
		}
		return hreq{"POST", "/", []byte(fmt.Sprintf(`{"jsonrpc":"2.0","id":%s,"method":%q,"params":%s}`, []string{"1", `"a"`, "null", "1.5"}[t.Intn(4)], m, v)), -1, m + " params=" + clipS(v, 60)}
	}
	nClients := t.Range(1, 3)
	type op struct {
		kind int // 0 http, 1..6 grpc
		h    hreq
		a, b uint64
		k    int
	}
	ops := make([][]op, nClients)
	desc := ""
	for c := range ops {
		n := t.Range(2, 10)
		for i := 0; i < n; i++ {
			o := op{kind: t.Pick(0, 0, 0, 1, 2, 3, 4, 5, 6), a: []uint64{0, 1, goodSlot, goodSlot + 1, math.MaxUint64, math.MaxUint64 - 1, 1 << 40, w0.LastSlot}[t.Intn(8)], b: []uint64{0, goodSlot + 3, math.MaxUint64, 5}[t.Intn(4)], k: t.Intn(64)}
			if o.kind == 0 {
				o.h = mkHTTP()
				desc += fmt.Sprintf("c%d:http(%s) ", c, o.h.desc)
			} else {
				desc += fmt.Sprintf("c%d:grpc%d(%d,%d,%d) ", c, o.kind, o.a, o.b, o.k)
			}
			ops[c] = append(ops[c], o)
		}
	}
	x.Digest(nLoaded, desc)
	x.Note("epochs_loaded", nLoaded)
	x.Note("requests", desc)

	x.Sim(runner.SimOpts{Phase: "hostile-requests", Cfg: dsim.Config{MaxSteps: 600000, MaxSimTime: 10 * time.Hour, NoTimerRace: true, TickPerStep: time.Microsecond}}, func() {
		s := dsim.Active()
		multi := NewMultiEpoch(&Options{EpochSearchConcurrency: t.Pick(2, 1, -1)})
		srvLoad := newServerLoader()
		for i := 0; i < nLoaded; i++ {
			ep, err := srvLoad(worlds[i].cfg)
			if err != nil {
				s.Fail("harness", "loadEpoch", err.Error())
			}
			multi.AddEpoch(ep.Epoch(), ep)
		}
		handler := newMultiEpochHandler(multi, nil)
		probe := func(after string) {
			// "keeps serving": a well-formed request is still answered correctly
			if nLoaded == 0 {
				st, body := jsonRPC(handler, "getVersion", []any{})
				if st != 200 || len(body) == 0 {
					s.Fail("oracle", "the server stopped answering a well-formed request", fmt.Sprintf("after %s: getVersion status %d", after, st))
				}
				return
			}
			st, body := jsonRPC(handler, "getBlockTime", []any{goodSlot})
			want := fmt.Sprintf(`"result":%d`, w0.Blocks[1].BlockTime)
			if w0.Blocks[1].BlockTime == 0 {
				want = `"result":null`
			}
			if st != 200 || !bytes.Contains(body, []byte(want)) {
				s.Fail("oracle", "the server stopped answering a well-formed request", fmt.Sprintf("after %s: getBlockTime(%d) status %d body %s", after, goodSlot, st, clipB(body)))
			}
		}
		accStrs := []string{goodAddr, "", "x", "not-base58-!!", strings.Repeat("1", 100), w0.Addresses[1].String()}
		var wg simsync.WaitGroup
		for c := range ops {
			c := c
			wg.Add(1)
			dsim.Go(fmt.Sprintf("hostile%d", c), func() {
				defer wg.Done()
				for _, o := range ops[c] {
					ctx, cancel := simctx.WithCancel(context.Background())
					// every stream is cancelled by its client after a while: a call that cannot finish
					// after that is a liveness violation (the step cap catches it)
					// the client gives up 300 simulated microseconds (= 300 scheduling steps) after sending
					cancelTimer := simtime.AfterFunc(300*time.Microsecond, cancel)
					what := ""
					switch o.kind {
					case 0:
						what = "http " + o.h.desc
						st, _ := rawHTTP(handler, o.h.method, o.h.path, o.h.body, o.h.declared)
						if st == 0 {
							s.Fail("oracle", "an HTTP request got no response status", what)
						}
					case 1:
						what = fmt.Sprintf("grpc GetBlock(%d)", o.a)
						multi.GetBlock(ctx, &old_faithful_grpc.BlockRequest{Slot: o.a})
					case 2:
						sig := r.Bytes([]int{0, 1, 63, 64, 65, 200}[o.k%6])
						if o.k%7 == 0 {
							sig = w0.Txs[0].Sigs[0][:]
						}
						what = fmt.Sprintf("grpc GetTransaction(%d-byte signature)", len(sig))
						multi.GetTransaction(ctx, &old_faithful_grpc.TransactionRequest{Signature: sig})
					case 3:
						what = fmt.Sprintf("grpc GetBlockTime(%d)", o.a)
						multi.GetBlockTime(ctx, &old_faithful_grpc.BlockTimeRequest{Slot: o.a})
					case 4:
						req := &old_faithful_grpc.StreamBlocksRequest{StartSlot: o.a}
						if o.k%3 != 0 {
							e := o.b
							req.EndSlot = &e
						}
						if o.k%2 == 0 {
							req.Filter = &old_faithful_grpc.StreamBlocksFilter{AccountInclude: []string{accStrs[o.k%len(accStrs)]}}
						}
						what = fmt.Sprintf("grpc StreamBlocks(start=%d end=%v filter=%v)", o.a, req.EndSlot != nil, req.Filter != nil)
						multi.StreamBlocks(req, &blockStream{fakeStream: fakeStream{ctx: ctx}})
					case 5:
						req := &old_faithful_grpc.StreamTransactionsRequest{StartSlot: o.a}
						if o.k%3 != 0 {
							e := o.b
							req.EndSlot = &e
						}
						switch o.k % 5 {
						case 0: // no filter
						case 1:
							req.Filter = &old_faithful_grpc.StreamTransactionsFilter{} // vote/failed absent
						case 2:
							v := true
							req.Filter = &old_faithful_grpc.StreamTransactionsFilter{Vote: &v, AccountInclude: []string{accStrs[o.k%len(accStrs)]}}
						case 3:
							v, f := false, true
							req.Filter = &old_faithful_grpc.StreamTransactionsFilter{Vote: &v, Failed: &f, AccountExclude: []string{accStrs[(o.k/5)%len(accStrs)]}, AccountRequired: []string{accStrs[(o.k/7)%len(accStrs)]}}
						default:
							v, f := true, true
							req.Filter = &old_faithful_grpc.StreamTransactionsFilter{Vote: &v, Failed: &f, AccountInclude: []string{goodAddr, accStrs[o.k%len(accStrs)]}}
						}
						what = fmt.Sprintf("grpc StreamTransactions(start=%d end=%v filter variant %d)", o.a, req.EndSlot != nil, o.k%5)
						multi.StreamTransactions(req, &txStream{fakeStream: fakeStream{ctx: ctx}})
					case 6:
						gs := &getStream{fakeStream: fakeStream{ctx: ctx}}
						for i := 0; i < 1+o.k%4; i++ {
							switch (o.k + i) % 5 {
							case 0:
								gs.reqs = append(gs.reqs, &old_faithful_grpc.GetRequest{Id: uint64(i), Request: &old_faithful_grpc.GetRequest_Block{Block: &old_faithful_grpc.BlockRequest{Slot: o.a}}})
							case 1:
								gs.reqs = append(gs.reqs, &old_faithful_grpc.GetRequest{Id: uint64(i), Request: &old_faithful_grpc.GetRequest_Transaction{Transaction: &old_faithful_grpc.TransactionRequest{Signature: r.Bytes(o.k)}}})
							case 2:
								gs.reqs = append(gs.reqs, &old_faithful_grpc.GetRequest{Id: uint64(i), Request: &old_faithful_grpc.GetRequest_BlockTime{BlockTime: &old_faithful_grpc.BlockTimeRequest{Slot: o.b}}})
							case 3:
								gs.reqs = append(gs.reqs, &old_faithful_grpc.GetRequest{Id: uint64(i)}) // no request set
							default:
								gs.reqs = append(gs.reqs, &old_faithful_grpc.GetRequest{Id: uint64(i), Request: &old_faithful_grpc.GetRequest_Block{Block: &old_faithful_grpc.BlockRequest{}}}) // empty inner message (a nil one cannot arrive over the wire)
							}
						}
						what = fmt.Sprintf("grpc Get stream with %d requests (variant %d)", len(gs.reqs), o.k%5)
						multi.Get(gs)
					}
					cancelTimer.Stop()
					cancel()
					probe(what)
					x.Probe("c08.requests")
				}
			})
		}
		wg.Wait()
		s.QuiesceTimers()
		multi.Close()
	})
	var _ = json.Marshal
}

func clipS(s string, n int) string {
	if len(s) > n {
		return s[:n] + "..."
	}
	return s
}
