package main

import (
	"context"
	"encoding/json"
	"fmt"
	"path/filepath"
	"sort"
	"time"

	"dsim"
	"dsim/runner"

	"github.com/gagliardetto/solana-go"
	"github.com/rpcpool/yellowstone-faithful/gsfa"
	"github.com/rpcpool/yellowstone-faithful/gsfa/linkedlog"
	"github.com/rpcpool/yellowstone-faithful/indexes"
	"github.com/rpcpool/yellowstone-faithful/ipld/ipldbindcode"
	"github.com/rpcpool/yellowstone-faithful/iplddecoders"
	"github.com/rpcpool/yellowstone-faithful/zzverif/world"
)

// C07: getSignaturesForAddress paging slices the newest-first history correctly.
func init() { runner.Register("C07", scenarioC07) }

// c07colliding searches an address that is not stored in b's pubkey index but shares bucket and
// truncated hash with one that is.
func c07colliding(x *runner.X, b *builtWorld, cr *dsim.Rand) (solana.PublicKey, bool) {
	var pk solana.PublicKey
	stored := map[string]bool{}
	for _, a := range b.w.Addresses {
		stored[string(a[:])] = true
	}
	paths, _ := filepath.Glob(filepath.Join(b.dir, "indexes", "*gsfa*", "*pubkey-to-offset-and-size*"))
	if len(paths) != 1 {
		x.Probe(fmt.Sprintf("c07.collision-search-paths-%d", len(paths)))
		return pk, false
	}
	ks, err := collidingAbsentKeys(paths[0], stored, func(i int) []byte { return cr.Bytes(32) }, 2500000, 1)
	if err != nil {
		x.Probe("c07.collision-search-error")
		x.Note("collision_search_error", err.Error())
		return pk, false
	}
	if len(ks) == 0 {
		x.Probe("c07.collision-search-none")
		return pk, false
	}
	copy(pk[:], ks[0])
	return pk, true
}

func c07mentions(tx *world.Tx, a solana.PublicKey) bool {
	for _, l := range [][]solana.PublicKey{tx.Static, tx.LoadedWritable, tx.LoadedReadonly} {
		for _, k := range l {
			if k == a {
				return true
			}
		}
	}
	return false
}

func scenarioC07(x *runner.X) {
	t := x.Tape
	engineKnobs(nil)
	if t.Bool(0.6) {
		// the address index is always built for 1 000 000 keys, i.e. 100 buckets at the real bucket
		// size: a collision search against a handful of stored addresses is then hopeless. One big
		// bucket (a legal value of the tuning constant) makes in-bucket collisions findable.
		engineKnobs(map[string]int{"compactindex.targetEntriesPerBucket": 1 << 20})
		x.Note("entries_per_bucket_knob", 1<<20)
	}
	n := t.Range(1, 3)
	// small account universe: addresses recur within and across epochs
	pool := []uint64{1, 2, 3, 77, 600}
	perm := t.Perm(len(pool))
	var epochs []uint64
	for i := 0; i < n; i++ {
		epochs = append(epochs, pool[perm[i]])
	}
	sort.Slice(epochs, func(i, j int) bool { return epochs[i] < epochs[j] })
	var ws []*builtWorld
	var collidingWithHistory []solana.PublicKey
	for i, e := range epochs {
		p := world.Params{Epoch: e, Salt: 7, NumBlocks: t.Range(1, 5), MaxEntries: t.Range(1, 2), MaxTxPerEntry: t.Range(1, 3), NumAccounts: t.Pick(6, 8, 10), MaxFrameBytes: t.Pick(200, 60, 1000), SkipProb: 0.4, MaxSkip: 4}
		// the same salt in every epoch: the account universes overlap, an address can appear in any subset of the epochs
		if i > 0 && t.Bool(0.6) {
			// an address that is absent from the next older epoch but collides, in that epoch's
			// pubkey index, with an address stored there gets a history in this newer epoch
			if pk, ok := c07colliding(x, ws[i-1], dsim.NewRand(t.SubRand().Uint64())); ok {
				p.ExtraAccounts = append(p.ExtraAccounts, [32]byte(pk))
				collidingWithHistory = append(collidingWithHistory, pk)
			}
		}
		w := world.Generate(tapeRng{t.SubRand()}, p)
		dir := filepath.Join(x.TempDir(), fmt.Sprintf("epoch-%d", e))
		cfg, err := buildWorldDir(dir, w, true)
		if err != nil {
			x.Failf("oracle", "index generation failed on a well-formed epoch CAR", "%s: %v", w.Describe(), err)
			return
		}
		ws = append(ws, &builtWorld{w: w, cfg: cfg, dir: dir, loaded: true})
		x.Digest(w.Describe())
	}
	x.Note("worlds", describeWorlds(ws))
	// histories: newest epoch first
	hist := map[solana.PublicKey][]*world.Tx{}
	var addrs []solana.PublicKey
	seen := map[solana.PublicKey]bool{}
	for i := len(ws) - 1; i >= 0; i-- {
		for _, a := range ws[i].w.Addresses {
			hist[a] = append(hist[a], ws[i].w.ByAddress[a]...)
			if !seen[a] {
				seen[a] = true
				addrs = append(addrs, a)
			}
		}
	}
	sort.Slice(addrs, func(i, j int) bool { return addrs[i].String() < addrs[j].String() })
	nAddr := 4
	if x.Tier == "thorough" {
		nAddr = 12
	}
	r := t.SubRand()
	// an address that never appears, and one that collides with a stored address in the pubkey index
	var absent []solana.PublicKey
	var never solana.PublicKey
	copy(never[:], r.Bytes(32))
	absent = append(absent, never)
	for _, b := range ws[len(ws)-1:] {
		stored := map[string]bool{}
		for _, a := range b.w.Addresses {
			stored[string(a[:])] = true
		}
		paths, _ := filepath.Glob(filepath.Join(b.dir, "indexes", "*gsfa*", "*pubkey-to-offset-and-size*"))
		if len(paths) == 1 {
			cr := dsim.NewRand(r.Uint64())
			ks, err := collidingAbsentKeys(paths[0], stored, func(i int) []byte { return cr.Bytes(32) }, 2500000, 1)
			if err == nil {
				for _, k := range ks {
					var pk solana.PublicKey
					copy(pk[:], k)
					absent = append(absent, pk)
					x.Probe("c07.colliding-address")
				}
			}
		}
	}
	// the --gsfa-only-signatures mode of the server: entries carry the signature only
	onlySigs := t.Bool(0.3)
	x.Note("gsfa_only_signatures", onlySigs)
	worldStrictEpochOrder = true
	x.Sim(runner.SimOpts{Phase: "gsfa-paging", Cfg: dsim.Config{MaxSteps: 30000000, MaxSimTime: 10 * time.Hour}}, func() {
		s := dsim.Active()
		multi := NewMultiEpoch(&Options{EpochSearchConcurrency: 2, GsfaOnlySignatures: onlySigs})
		srvLoad := newServerLoader()
		for _, b := range ws {
			ep, err := srvLoad(b.cfg)
			if err != nil {
				s.Fail("oracle", "a freshly indexed epoch cannot be loaded", err.Error())
			}
			multi.AddEpoch(ep.Epoch(), ep)
		}
		handler := newMultiEpochHandler(multi, nil)
		ask := func(a solana.PublicKey, opts map[string]any) ([]map[string]any, string, bool) {
			params := []any{a.String()}
			if opts != nil {
				params = append(params, opts)
			}
			_, body := jsonRPC(handler, "getSignaturesForAddress", params)
			var reply struct {
				Result []map[string]any `json:"result"`
				Error  *struct {
					Code    int    `json:"code"`
					Message string `json:"message"`
				} `json:"error"`
			}
			if err := json.Unmarshal(body, &reply); err != nil {
				return nil, string(body), false
			}
			if reply.Error != nil {
				return nil, fmt.Sprintf("error %d %s", reply.Error.Code, reply.Error.Message), false
			}
			return reply.Result, "", true
		}
		sigList := func(txs []*world.Tx) []string {
			out := make([]string, len(txs))
			for i, tx := range txs {
				out[i] = fmt.Sprintf("%s@%d.%d", tx.Sig().String()[:8], tx.Slot, tx.Position)
			}
			return out
		}
		var targets []solana.PublicKey
		for _, a := range collidingWithHistory {
			if len(hist[a]) > 0 {
				targets = append(targets, a)
				x.Probe("c07.colliding-address-with-newer-history")
			}
		}
		for ai := 0; ai < nAddr && ai < len(addrs); ai++ {
			targets = append(targets, addrs[t.Intn(len(addrs))])
		}
		for _, a := range targets {
			H := hist[a]
			idx := map[solana.Signature]int{}
			for i, tx := range H {
				idx[tx.Sig()] = i
			}
			type q struct {
				limit         int
				before, until int // index into H, -1 = not given
			}
			var qs []q
			qs = append(qs, q{0, -1, -1})
			for k := 0; k < 6; k++ {
				qq := q{limit: t.Pick(0, 1, 2, 3, len(H), len(H)+1, 1000), before: -1, until: -1}
				if len(H) > 0 && t.Bool(0.6) {
					qq.before = t.Intn(len(H))
				}
				if len(H) > 0 && t.Bool(0.6) {
					qq.until = t.Intn(len(H))
				}
				qs = append(qs, qq)
			}
			for _, qq := range qs {
				opts := map[string]any{}
				if qq.limit > 0 {
					opts["limit"] = qq.limit
				}
				start := 0
				if qq.before >= 0 {
					opts["before"] = H[qq.before].Sig().String()
					start = qq.before + 1
				}
				end := len(H)
				if qq.until >= 0 {
					opts["until"] = H[qq.until].Sig().String()
					if qq.until >= start {
						end = qq.until + 1
					}
				}
				want := H[start:end]
				lim := qq.limit
				if lim <= 0 || lim > 1000 {
					lim = 1000
				}
				if len(want) > lim {
					want = want[:lim]
				}
				got, errText, ok := ask(a, opts)
				what := fmt.Sprintf("getSignaturesForAddress(%s, limit=%d before=#%d until=#%d) over a history of %d in %d epochs", a.String()[:8], qq.limit, qq.before, qq.until, len(H), len(ws))
				if !ok {
					if x.Failf("oracle", "getSignaturesForAddress failed for an address with history", "%s: %s", what, errText) {
						return
					}
					continue
				}
				var gotS []string
				for _, e := range got {
					sg, _ := e["signature"].(string)
					slot, _ := e["slot"].(float64)
					if len(sg) >= 8 {
						sg = sg[:8]
					}
					if onlySigs {
						gotS = append(gotS, sg)
					} else {
						gotS = append(gotS, fmt.Sprintf("%s@%d", sg, uint64(slot)))
					}
				}
				var wantS []string
				for _, tx := range want {
					if onlySigs {
						wantS = append(wantS, tx.Sig().String()[:8])
					} else {
						wantS = append(wantS, fmt.Sprintf("%s@%d", tx.Sig().String()[:8], tx.Slot))
					}
				}
				if fmt.Sprint(gotS) != fmt.Sprint(wantS) {
					sig := "getSignaturesForAddress returns a different slice of the history"
					if len(gotS) == len(wantS) {
						a1 := append([]string(nil), gotS...)
						b1 := append([]string(nil), wantS...)
						sort.Strings(a1)
						sort.Strings(b1)
						if fmt.Sprint(a1) == fmt.Sprint(b1) {
							sig = "getSignaturesForAddress returns the right entries in the wrong order"
						}
					}
					if x.Failf("oracle", sig, "%s\n got  %v\n want %v\n full history %v", what, gotS, wantS, sigList(H)) {
						return
					}
				}
			}
			// a `before` that is not in the history: only "no crash, a response" is required
			var ghost solana.Signature
			copy(ghost[:], r.Bytes(64))
			ask(a, map[string]any{"before": ghost.String()})
		}
		for _, a := range absent {
			got, errText, ok := ask(a, nil)
			if !ok {
				continue // an error is an acceptable answer for an address without history
			}
			_ = errText
			if len(got) != 0 {
				if x.Failf("oracle", "getSignaturesForAddress returns signatures for an address without history", "%s: %d entries: %v", a, len(got), got[0]) {
					return
				}
			}
		}
		// slot-bounded variant used for streaming
		readers, _ := multi.getGsfaReadersInEpochDescendingOrder()
		gm, err := gsfa.NewGsfaReaderMultiepoch(readers)
		if err != nil {
			s.Fail("harness", "NewGsfaReaderMultiepoch", err.Error())
		}
		fetch := func(epochNum uint64, oas linkedlog.OffsetAndSizeAndSlot) (*ipldbindcode.Transaction, error) {
			ep, err := multi.GetEpoch(epochNum)
			if err != nil {
				return nil, err
			}
			raw, err := ep.GetNodeByOffsetAndSize(context.Background(), nil, &indexes.OffsetAndSize{Offset: oas.Offset, Size: oas.Size})
			if err != nil {
				return nil, err
			}
			return iplddecoders.DecodeTransaction(raw)
		}
		bySigAll := map[solana.Signature]*world.Tx{}
		for _, b := range ws {
			for _, tx := range b.w.Txs {
				bySigAll[tx.Sig()] = tx
			}
		}
		for k := 0; k < 6 && len(addrs) > 0; k++ {
			a := addrs[t.Intn(len(addrs))]
			H := hist[a]
			if len(H) == 0 {
				continue
			}
			lo := H[t.Intn(len(H))].Slot
			hi := H[t.Intn(len(H))].Slot
			if lo > hi {
				lo, hi = hi, lo
			}
			until := lo - uint64(t.Intn(2))
			before := hi + uint64(t.Intn(3))
			limit := t.Pick(1000, 1, 2, 100)
			res, err := gm.GetBeforeUntilSlot(context.Background(), a, limit, before, until, fetch)
			what := fmt.Sprintf("GetBeforeUntilSlot(%s, limit=%d, before=%d, until=%d)", a.String()[:8], limit, before, until)
			if err != nil {
				if x.Failf("oracle", "the slot-bounded history read failed", "%s: %v", what, err) {
					return
				}
				continue
			}
			gotSigs := map[solana.Signature]bool{}
			nGot, foreign := 0, 0
			var gotList []string
			for en, txs := range res {
				for _, tx := range txs {
					if sg, err := tx.Signature(); err == nil {
						gotList = append(gotList, fmt.Sprintf("%s@%d(epoch %d)", sg.String()[:8], tx.Slot, en))
					}
					if uint64(tx.Slot) < until || uint64(tx.Slot) >= before {
						if x.Failf("oracle", "the slot-bounded history read returned a transaction outside the requested slot range", "%s returned slot %d; history slots %v", what, tx.Slot, sigList(H)) {
							return
						}
					}
					if sg, err := tx.Signature(); err == nil {
						gotSigs[sg] = true
						if mtx := bySigAll[sg]; mtx != nil && !c07mentions(mtx, a) {
							foreign++
						}
					}
					nGot++
				}
			}
			if foreign > 0 {
				// This layer cannot tell an address from one that collides with it in an epoch's pubkey
				// index (24-bit hash): it hands back the other address's transactions and leaves the
				// rejection to its callers (the JSON-RPC handler verifies the address per epoch, the
				// stream filters every transaction). Such extras may also use up the limit, so the
				// completeness of this answer is not judged.
				x.Probe("c07.slot-bounded-read-with-colliding-extras")
				continue
			}
			// completeness: the newest `limit` transactions of the history that lie in [until, before)
			var wantTxs []*world.Tx
			for _, tx := range H {
				if tx.Slot >= until && tx.Slot < before && len(wantTxs) < limit {
					wantTxs = append(wantTxs, tx)
				}
			}
			missing := 0
			for _, tx := range wantTxs {
				if !gotSigs[tx.Sig()] {
					missing++
				}
			}
			if missing > 0 || nGot != len(wantTxs) {
				if x.Failf("oracle", "the slot-bounded history read does not return exactly the newest transactions of the slot range", "%s returned %d transactions %v, %d of the %d expected are missing; expected %v; full history %v", what, nGot, gotList, missing, len(wantTxs), sigList(wantTxs), sigList(H)) {
					return
				}
			}
		}
		s.QuiesceTimers()
		multi.Close()
	})
	worldStrictEpochOrder = false
	x.SetNontrivial(true)
}
