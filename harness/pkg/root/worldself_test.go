package main

// TestWorldSelf proves that the synthetic world generator (zzverif/world) produces archives the
// real tooling and the real server agree with: every world is indexed with the real index
// builders, loaded with the real config/epoch loader and queried through the real JSON-RPC
// handler and the gRPC methods; every answer is compared with the generator's ground truth.

import (
	"bytes"
	"context"
	"encoding/base64"
	"encoding/binary"
	"encoding/json"
	"fmt"
	"os"
	"reflect"
	"sort"
	"strconv"
	"strings"
	"testing"
	"time"

	bin "github.com/gagliardetto/binary"
	"github.com/gagliardetto/solana-go"
	"github.com/ipfs/go-cid"
	"github.com/ipld/go-ipld-prime"
	"github.com/ipld/go-ipld-prime/codec/dagcbor"
	cidlink "github.com/ipld/go-ipld-prime/linking/cid"
	"github.com/ipld/go-ipld-prime/schema"
	"github.com/klauspost/compress/zstd"
	"github.com/mr-tron/base58"
	"github.com/rpcpool/yellowstone-faithful/ipld/ipldbindcode"
	old_faithful_grpc "github.com/rpcpool/yellowstone-faithful/old-faithful-proto/old-faithful-grpc"
	solanatxmetaparsers "github.com/rpcpool/yellowstone-faithful/solana-tx-meta-parsers"
	"github.com/rpcpool/yellowstone-faithful/tooling"
	"github.com/rpcpool/yellowstone-faithful/zzverif/world"
	"github.com/valyala/fasthttp"
	"google.golang.org/grpc/codes"
	"google.golang.org/grpc/status"
	"k8s.io/klog/v2"
)

// worldRng is a splitmix64 generator implementing world.Rng.
type worldRng struct{ s uint64 }

// worldStrictEpochOrder makes checkSignaturesForAddress insist on newest-epoch-first order
// (set by the C07 scenario; the self-test tolerates the map-order defect D2).
var worldStrictEpochOrder bool

// reporter is the part of *testing.T the model checks need; simulation scenarios pass their own.
type reporter interface {
	Errorf(format string, args ...any)
	Fatalf(format string, args ...any)
	Fatal(args ...any)
	Helper()
}

func (r *worldRng) Uint64() uint64 {
	r.s += 0x9e3779b97f4a7c15
	z := r.s
	z = (z ^ (z >> 30)) * 0xbf58476d1ce4e5b9
	z = (z ^ (z >> 27)) * 0x94d049bb133111eb
	return z ^ (z >> 31)
}
func (r *worldRng) Intn(n int) int { return int(r.Uint64() % uint64(n)) }

// worldSelfParams derives varied parameters from a seed; a few seeds pin corner cases.
func worldSelfParams(seed int) world.Params {
	r := &worldRng{s: uint64(seed)*7919 + 12345}
	p := world.Params{
		Epoch:           uint64(r.Intn(800)),
		Salt:            r.Uint64(),
		NumBlocks:       1 + r.Intn(9),
		FirstSlotOffset: r.Intn(3) * r.Intn(2000),
		FirstParentGap:  r.Intn(2) * r.Intn(40),
		SkipProb:        float64(r.Intn(7)) / 10,
		MaxSkip:         1 + r.Intn(5),
		MaxEntries:      1 + r.Intn(6),
		MaxTxPerEntry:   1 + r.Intn(4),
		NumAccounts:     6 + r.Intn(20),
		NumTables:       1 + r.Intn(4),
		VoteFrac:        float64(r.Intn(8)) / 10,
		FailedFrac:      float64(r.Intn(6)) / 10,
		V0Frac:          float64(1+r.Intn(9)) / 10,
		LookupFrac:      float64(1+r.Intn(9)) / 10,
		MaxSigs:         1 + r.Intn(3),
		MaxFrameBytes:   50 + r.Intn(251),
		Fanout:          1 + r.Intn(7),
		BigObjects:      r.Intn(4) == 0,
		EntriesLast:     r.Intn(5) == 0,
		MaxRewards:      1 + r.Intn(10),
		BlocksPerSubset: r.Intn(4),
	}
	switch seed {
	case 0: // all defaults, epoch 0 starting at slot 0 (genesis needed)
		p = world.Params{Salt: 1}
	case 1: // epoch 0, first block after slot 1 (parent 0), slot gaps
		p.Epoch, p.FirstSlotOffset, p.NumBlocks, p.SkipProb = 0, 2+r.Intn(100), 5, 0.5
	case 2: // epoch 0 from slot 0 with many gaps: a later block may have parent 0
		p.Epoch, p.FirstSlotOffset, p.NumBlocks, p.SkipProb, p.MaxSkip = 0, 0, 6, 0.9, 3
	case 3: // the last slots of an epoch
		p.FirstSlotOffset, p.Epoch = world.SlotsPerEpoch-1, 1+uint64(r.Intn(700))
	case 4: // tiny frames, big objects, fanout 5 like the schema comment
		p.MaxFrameBytes, p.Fanout, p.BigObjects = 50, 5, true
	case 5: // transaction data split into frames too (no gsfa index possible)
		p.SplitTxData, p.MaxFrameBytes = true, 70
	case 6: // single block, single entry, single transaction
		p.NumBlocks, p.MaxEntries, p.MaxTxPerEntry = 1, 1, 1
	case 7: // dangling first parent (documented server limitation)
		p.DanglingFirstParent, p.FirstSlotOffset, p.Epoch = true, 10+r.Intn(1000), 1+uint64(r.Intn(700))
	case 8: // no transactions requested: exactly one is forced
		p.MaxTxPerEntry = -1
	case 9: // no optional features at all
		p.SkipProb, p.VoteFrac, p.FailedFrac, p.V0Frac, p.LookupFrac, p.MemoFrac = -1, -1, -1, -1, -1, -1
		p.LegacyFrameProb, p.FnvHashProb, p.ZeroBlockTimeProb, p.ExtremeBlockTimeProb, p.NoHeightProb, p.NoRewardsProb, p.EmptyRewardsProb = -1, -1, -1, -1, -1, -1, -1
	case 10: // everything legacy-ish and missing
		p.LegacyFrameProb, p.FnvHashProb, p.ZeroBlockTimeProb, p.NoHeightProb, p.NoRewardsProb = 1, 1, 0.5, 1, 0.6
		p.MaxFrameBytes = 1 << 16
	case 11: // every slot-to-slot link crosses a gap; fanout 1 (pure chain of frames)
		p.SkipProb, p.Fanout, p.MaxFrameBytes = 1, 1, 60
	}
	return p
}

// worldSelfSeeds is the number of seeds TestWorldSelf runs; WORLD_SELF_SEEDS overrides it for soak runs.
var worldSelfSeeds = func() int {
	if n, err := strconv.Atoi(os.Getenv("WORLD_SELF_SEEDS")); err == nil && n > 0 {
		return n
	}
	return 30
}()

// worldSelfCoverage counts how often the corner cases the test claims to cover really occurred.
var worldSelfCoverage = map[string]int{}

func TestWorldSelf(t *testing.T) {
	klog.LogToStderr(false)
	klog.SetOutput(discardWriter{})
	restoreStderr := muteStderr(t)
	defer restoreStderr()
	defer worldTuneGC()()

	for seed := 0; seed < worldSelfSeeds; seed++ {
		seed := seed
		t.Run(fmt.Sprintf("seed%02d", seed), func(t *testing.T) {
			p := worldSelfParams(seed)
			started := time.Now()
			w := world.Generate(&worldRng{s: uint64(seed)}, p)
			genTook := time.Since(started)
			checkWorldStatic(t, seed, p, w)
			withGsfa := !w.Params.SplitTxData
			started = time.Now()
			cfg, err := buildEpochDir(t.TempDir(), w, withGsfa)
			if err != nil {
				t.Fatalf("buildEpochDir: %v", err)
			}
			indexTook := time.Since(started)
			started = time.Now()
			multi, handler, err := newWorldServer(cfg)
			if err != nil {
				t.Fatalf("newWorldServer: %v", err)
			}
			defer multi.Close()
			loadTook := time.Since(started)
			started = time.Now()
			checkWorldServer(t, multi, handler, []*world.World{w}, withGsfa)
			t.Logf("seed %d: generate %s, index %s, load %s, queries %s: %s", seed, genTook, indexTook, loadTook, time.Since(started), w.Describe())
		})
	}

	for _, k := range []string{"slot0", "prev-of-parent0-missing(D1)", "dangling-first-parent", "blocktime0-tx(Q1)", "multi-frame-meta", "multi-frame-txdata", "multi-frame-rewards",
		"legacy-frame", "fnv-hash", "varint3", "vote", "failed", "v0", "lookups", "memo", "no-rewards", "empty-rewards", "height-missing", "skipped-slot", "parent-in-previous-epoch", "frames>=10", "next-chain>=2"} {
		if worldSelfCoverage[k] == 0 {
			t.Errorf("corner case %q never occurred in %d seeds", k, worldSelfSeeds)
		}
	}
	t.Logf("coverage: %v", worldSelfCoverage)

	// two consecutive epochs behind one server
	t.Run("two-epochs", func(t *testing.T) {
		pa, pb := worldSelfParams(100), worldSelfParams(101)
		pa.Epoch, pb.Epoch = 41, 42
		pa.SplitTxData, pb.SplitTxData, pa.DanglingFirstParent, pb.DanglingFirstParent = false, false, false, false
		wa := world.Generate(&worldRng{s: 100}, pa)
		wb := world.Generate(&worldRng{s: 101}, pb)
		ca, err := buildEpochDir(t.TempDir(), wa, true)
		if err != nil {
			t.Fatal(err)
		}
		cb, err := buildEpochDir(t.TempDir(), wb, true)
		if err != nil {
			t.Fatal(err)
		}
		multi, handler, err := newWorldServer(ca, cb)
		if err != nil {
			t.Fatal(err)
		}
		defer multi.Close()
		checkWorldServer(t, multi, handler, []*world.World{wa, wb}, true)
	})
}

type discardWriter struct{}

func (discardWriter) Write(p []byte) (int, error) { return len(p), nil }

// muteStderr redirects fd-level os.Stderr to /dev/null while the index builders run (they print
// progress with fmt.Fprint(os.Stderr)); the test's own output goes through t.Log (stdout).
func muteStderr(t *testing.T) func() {
	old := os.Stderr
	devnull, err := os.OpenFile(os.DevNull, os.O_WRONLY, 0)
	if err != nil {
		return func() {}
	}
	os.Stderr = devnull
	return func() { os.Stderr = old; devnull.Close() }
}

// ---------------------------------------------------------------------------------------------
// static checks: the world against itself and against reference decoders
// ---------------------------------------------------------------------------------------------

func checkWorldStatic(t reporter, seed int, p world.Params, w *world.World) {
	t.Helper()
	// determinism, and salt independence of CIDs
	again := world.Generate(&worldRng{s: uint64(seed)}, p)
	if !bytes.Equal(again.CAR, w.CAR) || again.Describe() != w.Describe() {
		t.Fatalf("Generate is not deterministic")
	}
	p2 := p
	p2.Salt = p.Salt + 1
	other := world.Generate(&worldRng{s: uint64(seed)}, p2)
	if len(other.Blocks) != len(w.Blocks) || len(other.Txs) != len(w.Txs) {
		t.Fatalf("the salt changed the structure: %d/%d vs %d/%d blocks/txs", len(other.Blocks), len(other.Txs), len(w.Blocks), len(w.Txs))
	}
	for _, o := range other.Objects {
		if mine := w.ObjectByCid(o.Cid); mine != nil {
			// the only salt-independent node is a Rewards node holding an empty list
			if b := w.BlockBySlot(mine.Slot); o.Kind == world.KindRewards && b != nil && b.HasRewardsNode && len(b.Rewards) == 0 {
				continue
			}
			t.Fatalf("worlds with different salts share CID %s (%s)", o.Cid, world.KindName(o.Kind))
		}
	}

	// parse the CAR with an independent little parser
	hl, n := binary.Uvarint(w.CAR)
	if n <= 0 || int(hl)+n != w.HeaderLen {
		t.Fatalf("header length: varint says %d+%d, model says %d", hl, n, w.HeaderLen)
	}
	off := w.HeaderLen
	seen := make(map[string]bool)
	varints := make(map[int]int)
	for i, o := range w.Objects {
		sl, n := binary.Uvarint(w.CAR[off:])
		if n <= 0 {
			t.Fatalf("object %d: bad varint", i)
		}
		varints[n]++
		if uint64(off) != o.Offset || uint64(n)+sl != o.SectionLen || n != o.VarintLen() {
			t.Fatalf("object %d: offset/len mismatch: file %d/%d model %d/%d", i, off, uint64(n)+sl, o.Offset, o.SectionLen)
		}
		sec := w.CAR[off+n : off+n+int(sl)]
		cl, c, err := cid.CidFromBytes(sec)
		if err != nil || !c.Equals(o.Cid) || !bytes.Equal(sec[cl:], o.Data) {
			t.Fatalf("object %d: section content mismatch (%v)", i, err)
		}
		if !world.CidOf(o.Data).Equals(c) || c.Prefix().Codec != cid.DagCBOR || c.Version() != 1 {
			t.Fatalf("object %d: CID %s is not the sha2-256 dag-cbor CIDv1 of the data", i, c)
		}
		if seen[c.KeyString()] {
			t.Fatalf("duplicate CID %s", c)
		}
		seen[c.KeyString()] = true
		if int(o.Data[1]) != o.Kind {
			t.Fatalf("object %d: kind byte %d, model %d", i, o.Data[1], o.Kind)
		}
		checkReferenceRoundTrip(t, o)
		off += n + int(sl)
	}
	if off != len(w.CAR) {
		t.Fatalf("trailing bytes in CAR: %d != %d", off, len(w.CAR))
	}
	last := w.Objects[len(w.Objects)-1]
	if last.Kind != world.KindEpoch || !last.Cid.Equals(w.Root) {
		t.Fatalf("the last object must be the Epoch root")
	}
	if varints[1] == 0 || varints[2] == 0 {
		t.Errorf("expected 1- and 2-byte section varints, got %v", varints)
	}
	if w.Params.BigObjects && varints[3] == 0 {
		t.Errorf("BigObjects: expected 3-byte section varints, got %v", varints)
	}

	// model invariants
	if len(w.Txs) == 0 {
		t.Fatalf("world without transactions")
	}
	sigs := make(map[solana.Signature]bool)
	var prevB *world.Block
	for _, b := range w.Blocks {
		if b.Slot < w.FirstSlot || b.Slot > w.LastSlot {
			t.Fatalf("slot %d outside epoch %d", b.Slot, w.Epoch)
		}
		if prevB != nil && (b.Slot <= prevB.Slot || b.ParentSlot != prevB.Slot || !b.HasPrev || b.PrevBlockhash != prevB.Blockhash) {
			t.Fatalf("slot %d: bad chain to %d", b.Slot, prevB.Slot)
		}
		if prevB == nil && !w.Params.DanglingFirstParent && b.Slot != 0 && b.ParentSlot/world.SlotsPerEpoch == w.Epoch && b.ParentSlot != 0 {
			t.Fatalf("slot %d: first parent %d inside the epoch", b.Slot, b.ParentSlot)
		}
		if b.BlockTime < 0 || b.BlockTime >= 1<<32 {
			t.Fatalf("slot %d: block time %d", b.Slot, b.BlockTime)
		}
		if !bytes.Equal(b.Blockhash[:], b.EntryHashes[len(b.EntryHashes)-1]) {
			t.Fatalf("slot %d: blockhash is not the last entry hash", b.Slot)
		}
		for i, tx := range b.Txs {
			if tx.Position != i || tx.Slot != b.Slot || tx.Block != b {
				t.Fatalf("slot %d: tx %d has position %d", b.Slot, i, tx.Position)
			}
		}
		if b.HasRewardsNode {
			got, err := tooling.DecompressZstd(b.RewardsStored)
			if err != nil || !bytes.Equal(got, b.Rewards) {
				t.Fatalf("slot %d: stored rewards do not decompress to the payload (%v)", b.Slot, err)
			}
		} else if !b.RewardsCid.Equals(DummyCID) {
			t.Fatalf("slot %d: no rewards node but link %s", b.Slot, b.RewardsCid)
		}
		prevB = b
	}
	frames := 0
	for i, tx := range w.Txs {
		if i > 0 {
			pt := w.Txs[i-1]
			if !(pt.Slot < tx.Slot || (pt.Slot == tx.Slot && pt.Position < tx.Position)) {
				t.Fatalf("Txs not ascending at %d", i)
			}
		}
		if sigs[tx.Sig()] {
			t.Fatalf("duplicate first signature")
		}
		sigs[tx.Sig()] = true
		dec, err := solana.TransactionFromDecoder(bin.NewBinDecoder(tx.Raw))
		if err != nil {
			t.Fatalf("tx %s does not decode: %v", tx.Sig(), err)
		}
		if raw, err := dec.MarshalBinary(); err != nil || !bytes.Equal(raw, tx.Raw) {
			t.Fatalf("tx %s does not round-trip", tx.Sig())
		}
		if !reflect.DeepEqual(dec.Signatures, tx.Sigs) || !reflect.DeepEqual([]solana.PublicKey(dec.Message.AccountKeys), tx.Static) {
			t.Fatalf("tx %s: signatures/static keys differ from the model", tx.Sig())
		}
		if IsSimpleVoteTransaction(dec) != tx.IsVote {
			t.Fatalf("tx %s: IsSimpleVoteTransaction=%v, model IsVote=%v", tx.Sig(), !tx.IsVote, tx.IsVote)
		}
		if dec.Message.IsVersioned() != tx.IsV0 {
			t.Fatalf("tx %s: versioned mismatch", tx.Sig())
		}
		un, err := tooling.DecompressZstd(tx.MetaStored)
		if err != nil || !bytes.Equal(un, tx.Meta) {
			t.Fatalf("tx %s: stored metadata does not decompress to Meta (%v)", tx.Sig(), err)
		}
		mc, err := solanatxmetaparsers.ParseTransactionStatusMetaContainer(tx.Meta)
		if err != nil || !mc.IsProtobuf() {
			t.Fatalf("tx %s: metadata is not parsed as protobuf (%v)", tx.Sig(), err)
		}
		pm := mc.GetProtobuf()
		if pm.Fee != tx.Fee || (pm.Err != nil) != tx.Failed || len(pm.PreBalances) != len(tx.Static)+len(tx.LoadedWritable)+len(tx.LoadedReadonly) {
			t.Fatalf("tx %s: parsed metadata differs from the model", tx.Sig())
		}
		if !reflect.DeepEqual(byteSlicesToKeySlice(pm.LoadedWritableAddresses), nilIfEmpty(tx.LoadedWritable)) || !reflect.DeepEqual(byteSlicesToKeySlice(pm.LoadedReadonlyAddresses), nilIfEmpty(tx.LoadedReadonly)) {
			t.Fatalf("tx %s: loaded addresses differ", tx.Sig())
		}
		nl := 0
		for _, l := range dec.Message.AddressTableLookups {
			nl += len(l.WritableIndexes) + len(l.ReadonlyIndexes)
		}
		if nl != len(tx.LoadedWritable)+len(tx.LoadedReadonly) {
			t.Fatalf("tx %s: %d lookup indexes but %d loaded addresses", tx.Sig(), nl, len(tx.LoadedWritable)+len(tx.LoadedReadonly))
		}
		if tx.Frames > frames {
			frames = tx.Frames
		}
	}
	if w.Params.MaxFrameBytes <= 100 && len(w.Txs) >= 3 && frames < 2 {
		t.Errorf("MaxFrameBytes=%d but no multi-frame payload", w.Params.MaxFrameBytes)
	}
	checkWorldLayout(t, w)

	// ByAddress: newest first, complete
	count := 0
	for _, a := range w.Addresses {
		l := w.ByAddress[a]
		count += len(l)
		for i := 1; i < len(l); i++ {
			if !(l[i-1].Slot > l[i].Slot || (l[i-1].Slot == l[i].Slot && l[i-1].Position > l[i].Position)) {
				t.Fatalf("ByAddress[%s] not newest-first", a)
			}
		}
	}
	want := 0
	for _, tx := range w.Txs {
		want += len(tx.Mentions())
	}
	if count != want || len(w.Addresses) != len(w.ByAddress) {
		t.Fatalf("ByAddress incomplete: %d entries, want %d", count, want)
	}
}

// refDecodeFrame decodes a DataFrame node with the reference decoder.
func refDecodeFrame(t reporter, data []byte) *ipldbindcode.DataFrame {
	t.Helper()
	var f ipldbindcode.DataFrame
	if _, err := ipld.Unmarshal(data, dagcbor.Decode, &f, ipldbindcode.Prototypes.DataFrame.Type()); err != nil {
		t.Fatalf("reference decoder rejects a DataFrame: %v", err)
	}
	return &f
}

// checkFrames is an independent reimplementation of the frame reassembly: it follows the next
// links from the embedded first frame, checks index/total/hash on every frame, the position of
// the continuation frames in the CAR (strictly between lo and hi) and returns the payload.
func checkFrames(t reporter, w *world.World, what string, first *ipldbindcode.DataFrame, lo, hi uint64, wantFrames int) []byte {
	t.Helper()
	type fr struct {
		f   *ipldbindcode.DataFrame
		off uint64
	}
	var all []fr
	maxDepth := 0
	var walk func(f *ipldbindcode.DataFrame, off uint64, depth int)
	walk = func(f *ipldbindcode.DataFrame, off uint64, depth int) {
		if depth > maxDepth {
			maxDepth = depth
		}
		all = append(all, fr{f, off})
		next, _ := f.GetNext()
		if len(next) > w.Params.Fanout {
			t.Fatalf("%s: %d next links, fanout %d", what, len(next), w.Params.Fanout)
		}
		for _, l := range next {
			o := w.ObjectByCid(l.(cidlink.Link).Cid)
			if o == nil || o.Kind != world.KindDataFrame {
				t.Fatalf("%s: next link %s is not a DataFrame section", what, l)
			}
			if o.Offset <= lo || o.Offset >= hi || o.Offset >= off {
				t.Fatalf("%s: continuation frame at %d is not inside (%d,%d) and before its referrer at %d", what, o.Offset, lo, hi, off)
			}
			walk(refDecodeFrame(t, o.Data), o.Offset, depth+1)
		}
	}
	walk(first, hi, 0)
	if len(all) != wantFrames {
		t.Fatalf("%s: %d frames reachable, model %d", what, len(all), wantFrames)
	}
	sort.Slice(all, func(i, j int) bool { ii, _ := all[i].f.GetIndex(); jj, _ := all[j].f.GetIndex(); return ii < jj })
	var payload []byte
	for _, x := range all {
		payload = append(payload, x.f.Bytes()...)
	}
	h0, hasHash := first.GetHash()
	if !hasHash {
		if len(all) != 1 || first.HasIndex() || first.HasTotal() {
			t.Fatalf("%s: a frame without hash must be a legacy single frame", what)
		}
		worldSelfCoverage["legacy-frame"]++
		return payload
	}
	switch h0 {
	case world.ChecksumCRC64(payload):
	case world.ChecksumFNV(payload):
		worldSelfCoverage["fnv-hash"]++
	default:
		t.Fatalf("%s: hash %d is neither CRC64-ISO nor FNV-1a of the payload", what, h0)
	}
	if err := ipldbindcode.VerifyHash(payload, h0); err != nil {
		t.Fatalf("%s: VerifyHash: %v", what, err)
	}
	for i, x := range all {
		idx, ok1 := x.f.GetIndex()
		tot, ok2 := x.f.GetTotal()
		h, ok3 := x.f.GetHash()
		if !ok1 || !ok2 || !ok3 || idx != i || tot != len(all) || h != h0 {
			t.Fatalf("%s: frame %d has index %d total %d hash %d", what, i, idx, tot, h)
		}
	}
	if len(all) >= 10 {
		worldSelfCoverage["frames>=10"]++
	}
	if maxDepth >= 2 {
		worldSelfCoverage["next-chain>=2"]++
	}
	return payload
}

// checkWorldLayout checks the order of the sections and every data-frame chain.
func checkWorldLayout(t reporter, w *world.World) {
	t.Helper()
	index := make(map[string]int, len(w.Objects))
	nFrames := 0
	for i, o := range w.Objects {
		index[o.Cid.KeyString()] = i
		if o.Kind == world.KindDataFrame {
			nFrames++
		}
	}
	wantFrames := 0
	pos := 0 // index of the next expected object
	prevEnd := uint64(w.HeaderLen) - 1
	for _, b := range w.Blocks {
		blockIdx := index[b.Cid.KeyString()]
		lastIdx := pos - 1
		for ei, e := range b.Entries {
			entryIdx := index[e.Cid.KeyString()]
			for _, tx := range e.Txs {
				txIdx := index[tx.Cid.KeyString()]
				if txIdx <= lastIdx || txIdx >= entryIdx || txIdx-lastIdx-1 != (tx.DataFrames-1)+(tx.MetaFrames-1) {
					t.Fatalf("slot %d: transaction %s at object %d (previous %d, entry %d) with %d+%d frames", b.Slot, tx.Sig(), txIdx, lastIdx, entryIdx, tx.DataFrames, tx.MetaFrames)
				}
				var node ipldbindcode.Transaction
				if _, err := ipld.Unmarshal(tx.Object.Data, dagcbor.Decode, &node, ipldbindcode.Prototypes.Transaction.Type()); err != nil {
					t.Fatal(err)
				}
				if p, ok := node.GetPositionIndex(); !ok || p != tx.Position || uint64(node.Slot) != tx.Slot {
					t.Fatalf("tx %s: node slot/index %d/%d", tx.Sig(), node.Slot, p)
				}
				if got := checkFrames(t, w, "tx data "+tx.Sig().String(), &node.Data, prevEnd, tx.Object.Offset, tx.DataFrames); !bytes.Equal(got, tx.Raw) {
					t.Fatalf("tx %s: reassembled transaction differs", tx.Sig())
				}
				if got := checkFrames(t, w, "tx meta "+tx.Sig().String(), &node.Metadata, prevEnd, tx.Object.Offset, tx.MetaFrames); !bytes.Equal(got, tx.MetaStored) {
					t.Fatalf("tx %s: reassembled metadata differs", tx.Sig())
				}
				wantFrames += tx.DataFrames - 1 + tx.MetaFrames - 1
				if tx.MetaFrames > 1 {
					worldSelfCoverage["multi-frame-meta"]++
				}
				if tx.DataFrames > 1 {
					worldSelfCoverage["multi-frame-txdata"]++
				}
				lastIdx = txIdx
				prevEnd = tx.Object.Offset
			}
			if !w.Params.EntriesLast {
				if entryIdx != lastIdx+1 {
					t.Fatalf("slot %d: entry %d at object %d, expected %d", b.Slot, ei, entryIdx, lastIdx+1)
				}
				lastIdx = entryIdx
				prevEnd = w.Objects[entryIdx].Offset
			}
		}
		if w.Params.EntriesLast {
			for ei, e := range b.Entries {
				if index[e.Cid.KeyString()] != lastIdx+1 {
					t.Fatalf("slot %d: entry %d at object %d, expected %d", b.Slot, ei, index[e.Cid.KeyString()], lastIdx+1)
				}
				lastIdx++
			}
			prevEnd = w.Objects[lastIdx].Offset
		}
		if b.HasRewardsNode {
			ro := w.ObjectByCid(b.RewardsCid)
			if ro == nil || index[ro.Cid.KeyString()] != blockIdx-1 || index[ro.Cid.KeyString()]-lastIdx-1 != b.RewardFrames-1 {
				t.Fatalf("slot %d: rewards node misplaced", b.Slot)
			}
			var node ipldbindcode.Rewards
			if _, err := ipld.Unmarshal(ro.Data, dagcbor.Decode, &node, ipldbindcode.Prototypes.Rewards.Type()); err != nil {
				t.Fatal(err)
			}
			if got := checkFrames(t, w, fmt.Sprintf("rewards %d", b.Slot), &node.Data, prevEnd, ro.Offset, b.RewardFrames); !bytes.Equal(got, b.RewardsStored) || uint64(node.Slot) != b.Slot {
				t.Fatalf("slot %d: reassembled rewards differ", b.Slot)
			}
			wantFrames += b.RewardFrames - 1
			if b.RewardFrames > 1 {
				worldSelfCoverage["multi-frame-rewards"]++
			}
			if len(b.Rewards) == 0 {
				worldSelfCoverage["empty-rewards"]++
			}
			lastIdx = blockIdx - 1
		} else {
			worldSelfCoverage["no-rewards"]++
		}
		if blockIdx != lastIdx+1 {
			t.Fatalf("slot %d: block node at object %d, expected %d", b.Slot, blockIdx, lastIdx+1)
		}
		// the Block node itself
		var node ipldbindcode.Block
		if _, err := ipld.Unmarshal(w.Objects[blockIdx].Data, dagcbor.Decode, &node, ipldbindcode.Prototypes.Block.Type()); err != nil {
			t.Fatal(err)
		}
		h, hasH := node.GetBlockHeight()
		if uint64(node.Slot) != b.Slot || uint64(node.Meta.Parent_slot) != b.ParentSlot || int64(node.Meta.Blocktime) != b.BlockTime ||
			hasH != (b.Height != nil) || (hasH && h != *b.Height) || len(node.Entries) != len(b.Entries) || len(node.Shredding) != len(b.Entries) ||
			!node.Rewards.(cidlink.Link).Cid.Equals(b.RewardsCid) {
			t.Fatalf("slot %d: block node differs from the model", b.Slot)
		}
		if b.Height == nil {
			worldSelfCoverage["height-missing"]++
		}
		pos = blockIdx + 1
		prevEnd = w.Objects[blockIdx].Offset
	}
	if nFrames != wantFrames {
		t.Fatalf("%d DataFrame sections, model accounts for %d", nFrames, wantFrames)
	}
	for i, s := range w.Subsets {
		if index[s.Cid.KeyString()] != pos+i || s.First != s.Blocks[0].Slot || s.Last != s.Blocks[len(s.Blocks)-1].Slot {
			t.Fatalf("subset %d misplaced or wrong bounds", i)
		}
	}
	if pos+len(w.Subsets) != len(w.Objects)-1 {
		t.Fatalf("unexpected objects between the subsets and the epoch node")
	}
	for _, tx := range w.Txs {
		for k, c := range map[string]bool{"vote": tx.IsVote, "failed": tx.Failed, "v0": tx.IsV0, "lookups": len(tx.LoadedWritable)+len(tx.LoadedReadonly) > 0, "memo": tx.Memo != nil, "blocktime0-tx(Q1)": tx.Block.BlockTime == 0} {
			if c {
				worldSelfCoverage[k]++
			}
		}
	}
	for _, o := range w.Objects {
		if o.VarintLen() == 3 {
			worldSelfCoverage["varint3"]++
		}
	}
	if len(w.SkippedSlots()) > 0 {
		worldSelfCoverage["skipped-slot"]++
	}
	if w.Blocks[0].Slot == 0 {
		worldSelfCoverage["slot0"]++
	} else if w.Blocks[0].ParentSlot < w.FirstSlot {
		worldSelfCoverage["parent-in-previous-epoch"]++
	}
}

func nilIfEmpty(k []solana.PublicKey) []solana.PublicKey {
	if len(k) == 0 {
		return nil
	}
	return k
}

// checkReferenceRoundTrip decodes an object with the reference decoder (bindnode + dag-cbor,
// not the repository's hand-written CBOR code) and re-encodes it to the same bytes.
func checkReferenceRoundTrip(t reporter, o *world.Object) {
	t.Helper()
	var ptr interface{}
	var typ schema.Type
	switch o.Kind {
	case world.KindTransaction:
		ptr, typ = &ipldbindcode.Transaction{}, ipldbindcode.Prototypes.Transaction.Type()
	case world.KindEntry:
		ptr, typ = &ipldbindcode.Entry{}, ipldbindcode.Prototypes.Entry.Type()
	case world.KindBlock:
		ptr, typ = &ipldbindcode.Block{}, ipldbindcode.Prototypes.Block.Type()
	case world.KindSubset:
		ptr, typ = &ipldbindcode.Subset{}, ipldbindcode.Prototypes.Subset.Type()
	case world.KindEpoch:
		ptr, typ = &ipldbindcode.Epoch{}, ipldbindcode.Prototypes.Epoch.Type()
	case world.KindRewards:
		ptr, typ = &ipldbindcode.Rewards{}, ipldbindcode.Prototypes.Rewards.Type()
	case world.KindDataFrame:
		ptr, typ = &ipldbindcode.DataFrame{}, ipldbindcode.Prototypes.DataFrame.Type()
	default:
		t.Fatalf("unknown kind %d", o.Kind)
	}
	if _, err := ipld.Unmarshal(o.Data, dagcbor.Decode, ptr, typ); err != nil {
		t.Fatalf("%s %s: reference decoder rejects the node: %v", world.KindName(o.Kind), o.Cid, err)
	}
	back, err := ipld.Marshal(dagcbor.Encode, ptr, typ)
	if err != nil || !bytes.Equal(back, o.Data) {
		t.Fatalf("%s %s: reference re-encoding differs (%v)", world.KindName(o.Kind), o.Cid, err)
	}
}

// ---------------------------------------------------------------------------------------------
// server checks
// ---------------------------------------------------------------------------------------------

type rpcReply struct {
	Result json.RawMessage `json:"result"`
	Error  *struct {
		Code    int    `json:"code"`
		Message string `json:"message"`
	} `json:"error"`
}

func callRPC(t reporter, handler func(*fasthttp.RequestCtx), method string, params any) rpcReply {
	t.Helper()
	st, body := jsonRPC(handler, method, params)
	if st != 200 {
		t.Fatalf("%s %v: HTTP status %d: %s", method, params, st, body)
	}
	var r rpcReply
	if err := json.Unmarshal(body, &r); err != nil {
		t.Fatalf("%s %v: bad JSON %q: %v", method, params, body, err)
	}
	return r
}

func decodeJSON(t reporter, raw json.RawMessage) any {
	t.Helper()
	d := json.NewDecoder(bytes.NewReader(raw))
	d.UseNumber()
	var v any
	if err := d.Decode(&v); err != nil {
		t.Fatalf("bad JSON %q: %v", raw, err)
	}
	return v
}

func jsonU64(t reporter, v any, what string) uint64 {
	t.Helper()
	n, ok := v.(json.Number)
	if !ok {
		t.Fatalf("%s: expected a number, got %T %v", what, v, v)
	}
	u, err := strconv.ParseUint(n.String(), 10, 64)
	if err != nil {
		t.Fatalf("%s: %v", what, err)
	}
	return u
}

func jsonI64(t reporter, v any, what string) int64 {
	t.Helper()
	n, ok := v.(json.Number)
	if !ok {
		t.Fatalf("%s: expected a number, got %T %v", what, v, v)
	}
	i, err := strconv.ParseInt(n.String(), 10, 64)
	if err != nil {
		t.Fatalf("%s: %v", what, err)
	}
	return i
}

func findWorld(worlds []*world.World, slot uint64) *world.World {
	for _, w := range worlds {
		if slot >= w.FirstSlot && slot <= w.LastSlot {
			return w
		}
	}
	return nil
}

func checkWorldServer(t reporter, multi *MultiEpoch, handler func(*fasthttp.RequestCtx), worlds []*world.World, withGsfa bool) {
	t.Helper()
	ctx := context.Background()
	for _, w := range worlds {
		ep, err := multi.GetEpoch(w.Epoch)
		if err != nil {
			t.Fatal(err)
		}
		if ep.carHeaderSize != uint64(w.HeaderLen) || !ep.rootCid.Equals(w.Root) {
			t.Fatalf("epoch %d: header size %d / root %s, model %d / %s", w.Epoch, ep.carHeaderSize, ep.rootCid, w.HeaderLen, w.Root)
		}
		// every object by CID, offsets and sizes from the index
		for _, o := range w.Objects {
			oas, err := ep.FindOffsetAndSizeFromCid(ctx, o.Cid)
			if err != nil || oas.Offset != o.Offset || oas.Size != o.SectionLen {
				t.Fatalf("epoch %d: FindOffsetAndSizeFromCid(%s %s) = %v, %v; model %d/%d", w.Epoch, world.KindName(o.Kind), o.Cid, oas, err, o.Offset, o.SectionLen)
			}
			data, err := ep.GetNodeByCid(ctx, o.Cid)
			if err != nil || !bytes.Equal(data, o.Data) {
				t.Fatalf("epoch %d: GetNodeByCid(%s %s) differs from the model (%v)", w.Epoch, world.KindName(o.Kind), o.Cid, err)
			}
		}
		for _, b := range w.Blocks {
			c, err := ep.FindCidFromSlot(ctx, b.Slot)
			if err != nil || !c.Equals(b.Cid) {
				t.Fatalf("FindCidFromSlot(%d) = %s, %v; model %s", b.Slot, c, err, b.Cid)
			}
		}
		for _, tx := range w.Txs {
			c, err := ep.FindCidFromSignature(ctx, tx.Sig())
			if err != nil || !c.Equals(tx.Cid) {
				t.Fatalf("FindCidFromSignature(%s) = %s, %v; model %s", tx.Sig(), c, err, tx.Cid)
			}
			if has, err := ep.sigExists.Has(tx.Sig()); err != nil || !has {
				t.Fatalf("sig-exists index misses %s (%v)", tx.Sig(), err)
			}
		}
		// first/most recent block through the Epoch and Subset nodes
		if fb, err := ep.GetFirstAvailableBlock(ctx); err != nil || uint64(fb.Slot) != w.Blocks[0].Slot {
			t.Fatalf("GetFirstAvailableBlock: %v %v", fb, err)
		}
		if lb, err := ep.GetMostRecentAvailableBlock(ctx); err != nil || uint64(lb.Slot) != w.Blocks[len(w.Blocks)-1].Slot {
			t.Fatalf("GetMostRecentAvailableBlock: %v %v", lb, err)
		}
	}
	oldest, newest := worlds[0], worlds[len(worlds)-1]
	if r := callRPC(t, handler, "getFirstAvailableBlock", []any{}); r.Error != nil || string(r.Result) != fmt.Sprint(oldest.Blocks[0].Slot) {
		t.Errorf("getFirstAvailableBlock = %s %v, want %d", r.Result, r.Error, oldest.Blocks[0].Slot)
	}
	if r := callRPC(t, handler, "getSlot", []any{}); r.Error != nil || string(r.Result) != fmt.Sprint(newest.Blocks[len(newest.Blocks)-1].Slot) {
		t.Errorf("getSlot = %s %v, want %d", r.Result, r.Error, newest.Blocks[len(newest.Blocks)-1].Slot)
	}

	for _, w := range worlds {
		for bi, b := range w.Blocks {
			checkBlockGRPC(t, multi, w, bi, b)
			for _, enc := range []string{"base64", "base58", "base64+zstd", "json"} {
				checkBlockJSON(t, handler, w, bi, b, enc)
			}
			checkBlockTime(t, multi, handler, b.Slot, b.BlockTime)
		}
		for _, s := range w.SkippedSlots() {
			// TODO(server defect D5, epoch.go:868-892 / compactindexsized/query.go:220-262): the
			// compact indexes store a 24-bit hash per entry, not the key, so looking up an absent
			// key yields some other entry's value with probability (entries in bucket)/2^24, and
			// Epoch.GetBlock does not check that the block it loaded has the requested slot: a
			// skipped slot is then answered with a different block (seen with 500 blocks and
			// 180000 skipped slots: 8 wrong answers). Tolerated here if the answer is another block
			// of this world; counted in the coverage map.
			r := callRPC(t, handler, "getBlock", []any{s, map[string]any{"transactionDetails": "full", "encoding": "base64"}})
			if r.Error == nil && worldIsIndexFalsePositive(t, w, r.Result) {
				worldSelfCoverage["slot-index-false-positive(D5)"]++
			} else if r.Error == nil || r.Error.Code != CodeNotFound {
				t.Errorf("getBlock(skipped %d) = %.300s %+v, want error %d", s, r.Result, r.Error, CodeNotFound)
			}
			if resp, err := multi.GetBlock(ctx, &old_faithful_grpc.BlockRequest{Slot: s}); err == nil && w.BlockBySlot(resp.Slot) != nil && resp.Slot != s {
				worldSelfCoverage["slot-index-false-positive(D5)"]++
			} else if status.Code(err) != codes.NotFound {
				t.Errorf("grpc GetBlock(skipped %d): %v, want NotFound", s, err)
			}
			// the blocktime index has no notion of skipped slots: it answers 0 / null
			checkBlockTime(t, multi, handler, s, 0)
		}
		for _, tx := range w.Txs {
			checkTxGRPC(t, multi, tx)
			for _, enc := range []string{"base64", "json"} {
				checkTxJSON(t, handler, tx, enc)
			}
		}
	}
	// unknown signature
	var unknown solana.Signature
	unknown[0], unknown[63] = 1, 1
	if r := callRPC(t, handler, "getTransaction", []any{unknown.String()}); len(worlds) > 1 {
		if r.Error != nil || string(r.Result) != "null" {
			t.Errorf("getTransaction(unknown) = %s %+v, want null", r.Result, r.Error)
		}
	} else if r.Error == nil || r.Error.Code != CodeNotFound {
		// TODO(server quirk Q2, multiepoch-getTransaction.go:155-163): with a single epoch loaded an
		// unknown signature is answered with error -32009 "Transaction not found"; with several
		// epochs (findEpochNumberFromSignature wraps ErrNotFound) it is answered with
		// `"result":null`, which is what the code comments say Solana does.
		t.Errorf("getTransaction(unknown) = %s %+v, want error %d", r.Result, r.Error, CodeNotFound)
	}
	if _, err := multi.GetTransaction(ctx, &old_faithful_grpc.TransactionRequest{Signature: unknown[:]}); status.Code(err) != codes.NotFound {
		t.Errorf("grpc GetTransaction(unknown): %v, want NotFound", err)
	}
	// slot of an epoch that is not loaded
	foreign := (newest.Epoch + 5) * world.SlotsPerEpoch
	if r := callRPC(t, handler, "getBlock", []any{foreign}); r.Error == nil || r.Error.Code != CodeNotFound {
		t.Errorf("getBlock(foreign epoch) = %s %+v", r.Result, r.Error)
	}

	if withGsfa {
		checkSignaturesForAddress(t, handler, worlds)
	} else {
		if r := callRPC(t, handler, "getSignaturesForAddress", []any{worlds[0].Addresses[0].String()}); r.Error == nil {
			t.Errorf("getSignaturesForAddress without gsfa index succeeded: %s", r.Result)
		}
	}
}

// worldIsIndexFalsePositive reports whether a getBlock result is a block of w (see D5).
func worldIsIndexFalsePositive(t reporter, w *world.World, result json.RawMessage) bool {
	res, ok := decodeJSON(t, result).(map[string]any)
	if !ok {
		return false
	}
	for _, b := range w.Blocks {
		if res["blockhash"] == base58.Encode(b.Blockhash[:]) {
			return true
		}
	}
	return false
}

// expectedPrev returns the previousBlockhash the server is expected to report.
func expectedPrev(b *world.Block) ([32]byte, bool) {
	if b.HasPrev && b.ParentSlot == 0 && b.Slot > 1 {
		// TODO(server defect D1, multiepoch-getBlock.go:455 and grpc-server.go:354): a block with
		// slot > 1 whose parent is slot 0 (slots 1..n skipped) gets no previousBlockhash although
		// block 0 is available: the condition `(parentSlot != 0 || slot == 1)` treats parent 0 as
		// "unknown". The model says PrevBlockhash = Blockhash of slot 0.
		worldSelfCoverage["prev-of-parent0-missing(D1)"]++
		return [32]byte{}, false
	}
	return b.PrevBlockhash, b.HasPrev
}

func expectedGetBlockTime(b *world.Block) int64 {
	if b.Slot == 0 {
		return worldGenesisCreationTime
	}
	return b.BlockTime
}

func isDanglingFirst(w *world.World, bi int) bool {
	b := w.Blocks[bi]
	return bi == 0 && w.Params.DanglingFirstParent && b.Slot > 0 && b.ParentSlot == b.Slot-1 && b.ParentSlot/world.SlotsPerEpoch == w.Epoch && (b.ParentSlot != 0 || b.Slot == 1)
}

// afterUnaryReturn stands for the transport: grpc-go serialises a unary response after the handler
// has returned, and the serving goroutine can be descheduled in between while other requests are
// handled. Under the simulator this is a few scheduling points; outside it is nothing.
var afterUnaryReturn = func() {}

func checkBlockGRPC(t reporter, multi *MultiEpoch, w *world.World, bi int, b *world.Block) {
	t.Helper()
	resp, err := multi.GetBlock(context.Background(), &old_faithful_grpc.BlockRequest{Slot: b.Slot})
	afterUnaryReturn()
	if isDanglingFirst(w, bi) {
		// documented limitation: the parent is inside the epoch but not in the CAR
		worldSelfCoverage["dangling-first-parent"]++
		if status.Code(err) != codes.Internal {
			t.Errorf("grpc GetBlock(%d) with dangling parent: %v, want Internal", b.Slot, err)
		}
		return
	}
	if err != nil {
		t.Fatalf("grpc GetBlock(%d): %v", b.Slot, err)
	}
	if resp.Slot != b.Slot || resp.ParentSlot != b.ParentSlot {
		t.Errorf("grpc GetBlock(%d): slot %d parent %d, model parent %d", b.Slot, resp.Slot, resp.ParentSlot, b.ParentSlot)
	}
	if resp.BlockTime != expectedGetBlockTime(b) {
		t.Errorf("grpc GetBlock(%d): block time %d, model %d", b.Slot, resp.BlockTime, expectedGetBlockTime(b))
	}
	wantHeight := uint64(0)
	if b.Height != nil {
		wantHeight = *b.Height
	}
	if resp.BlockHeight != wantHeight {
		t.Errorf("grpc GetBlock(%d): height %d, model %d", b.Slot, resp.BlockHeight, wantHeight)
	}
	if !bytes.Equal(resp.Blockhash, b.Blockhash[:]) {
		t.Errorf("grpc GetBlock(%d): blockhash %x, model %x", b.Slot, resp.Blockhash, b.Blockhash)
	}
	if prev, ok := expectedPrev(b); ok {
		if !bytes.Equal(resp.PreviousBlockhash, prev[:]) {
			t.Errorf("grpc GetBlock(%d): previous blockhash %x, model %x", b.Slot, resp.PreviousBlockhash, prev)
		}
	} else if len(resp.PreviousBlockhash) != 0 {
		t.Errorf("grpc GetBlock(%d): previous blockhash %x, model none", b.Slot, resp.PreviousBlockhash)
	}
	if !bytes.Equal(resp.Rewards, b.Rewards) {
		t.Errorf("grpc GetBlock(%d): rewards %d bytes, model %d bytes", b.Slot, len(resp.Rewards), len(b.Rewards))
	}
	if len(resp.Transactions) != len(b.Txs) {
		t.Fatalf("grpc GetBlock(%d): %d transactions, model %d", b.Slot, len(resp.Transactions), len(b.Txs))
	}
	for i, tx := range b.Txs {
		got := resp.Transactions[i]
		if got.Index == nil || *got.Index != uint64(tx.Position) {
			t.Errorf("grpc GetBlock(%d) tx %d: index %v", b.Slot, i, got.Index)
		}
		if !bytes.Equal(got.Transaction, tx.Raw) {
			t.Errorf("grpc GetBlock(%d) tx %d: transaction bytes differ", b.Slot, i)
		}
		if !bytes.Equal(got.Meta, tx.Meta) {
			t.Errorf("grpc GetBlock(%d) tx %d: metadata bytes differ (%d vs %d)", b.Slot, i, len(got.Meta), len(tx.Meta))
		}
	}
}

func decodeEncodedTx(t reporter, v any, enc string) []byte {
	t.Helper()
	pair, ok := v.([]any)
	if !ok || len(pair) != 2 || pair[1] != enc {
		t.Fatalf("encoded transaction: %v", v)
	}
	s := pair[0].(string)
	switch enc {
	case "base58":
		b, err := base58.Decode(s)
		if err != nil {
			t.Fatal(err)
		}
		return b
	case "base64":
		b, err := base64.StdEncoding.DecodeString(s)
		if err != nil {
			t.Fatal(err)
		}
		return b
	case "base64+zstd":
		b, err := base64.StdEncoding.DecodeString(s)
		if err != nil {
			t.Fatal(err)
		}
		d, err := zstd.NewReader(nil)
		if err != nil {
			t.Fatal(err)
		}
		defer d.Close()
		out, err := d.DecodeAll(b, nil)
		if err != nil {
			t.Fatal(err)
		}
		return out
	}
	t.Fatalf("unknown encoding %s", enc)
	return nil
}

// checkTxObjectJSON compares one {transaction, meta, version} object.
func checkTxObjectJSON(t reporter, what string, obj map[string]any, tx *world.Tx, enc string) {
	t.Helper()
	if tx.IsV0 {
		if jsonU64(t, obj["version"], what+" version") != 0 {
			t.Errorf("%s: version %v, want 0", what, obj["version"])
		}
	} else if obj["version"] != "legacy" {
		t.Errorf("%s: version %v, want legacy", what, obj["version"])
	}
	if enc == "json" {
		txo, ok := obj["transaction"].(map[string]any)
		if !ok {
			t.Fatalf("%s: transaction is %T", what, obj["transaction"])
		}
		sigs := txo["signatures"].([]any)
		if len(sigs) != len(tx.Sigs) {
			t.Fatalf("%s: %d signatures, model %d", what, len(sigs), len(tx.Sigs))
		}
		for i := range sigs {
			if sigs[i] != tx.Sigs[i].String() {
				t.Errorf("%s: signature %d differs", what, i)
			}
		}
		msg := txo["message"].(map[string]any)
		keys := msg["accountKeys"].([]any)
		if len(keys) != len(tx.Static) {
			t.Fatalf("%s: %d account keys, model %d", what, len(keys), len(tx.Static))
		}
		for i := range keys {
			if keys[i] != tx.Static[i].String() {
				t.Errorf("%s: account key %d differs", what, i)
			}
		}
	} else {
		if raw := decodeEncodedTx(t, obj["transaction"], enc); !bytes.Equal(raw, tx.Raw) {
			t.Errorf("%s: transaction bytes differ from the model", what)
		}
	}
	meta, ok := obj["meta"].(map[string]any)
	if !ok {
		t.Fatalf("%s: meta is %T", what, obj["meta"])
	}
	if jsonU64(t, meta["fee"], what+" fee") != tx.Fee {
		t.Errorf("%s: fee %v, model %d", what, meta["fee"], tx.Fee)
	}
	wantErr := any(nil)
	wantStatus := map[string]any{"Ok": nil}
	if tx.Failed {
		wantErr = map[string]any{"InstructionError": []any{json.Number(fmt.Sprint(tx.ErrInstr)), map[string]any{"Custom": json.Number(fmt.Sprint(tx.ErrCode))}}}
		wantStatus = map[string]any{"Err": wantErr}
	}
	if !reflect.DeepEqual(meta["err"], wantErr) {
		t.Errorf("%s: err %v, model %v", what, meta["err"], wantErr)
	}
	if !reflect.DeepEqual(meta["status"], wantStatus) {
		t.Errorf("%s: status %v, model %v", what, meta["status"], wantStatus)
	}
	for name, want := range map[string][]uint64{"preBalances": tx.PreBalances, "postBalances": tx.PostBalances} {
		got, _ := meta[name].([]any)
		if len(got) != len(want) {
			t.Fatalf("%s: %s has %d elements, model %d", what, name, len(got), len(want))
		}
		for i := range got {
			if jsonU64(t, got[i], what+" "+name) != want[i] {
				t.Errorf("%s: %s[%d] = %v, model %d", what, name, i, got[i], want[i])
			}
		}
	}
	logs, _ := meta["logMessages"].([]any)
	if len(logs) != len(tx.LogMessages) {
		t.Fatalf("%s: %d log messages, model %d", what, len(logs), len(tx.LogMessages))
	}
	for i := range logs {
		if logs[i] != tx.LogMessages[i] {
			t.Errorf("%s: log message %d differs", what, i)
		}
	}
	la, ok := meta["loadedAddresses"].(map[string]any)
	if !ok {
		t.Fatalf("%s: loadedAddresses is %T", what, meta["loadedAddresses"])
	}
	for name, want := range map[string][]solana.PublicKey{"writable": tx.LoadedWritable, "readonly": tx.LoadedReadonly} {
		got, _ := la[name].([]any)
		if len(got) != len(want) {
			t.Fatalf("%s: loadedAddresses.%s has %d elements, model %d", what, name, len(got), len(want))
		}
		for i := range got {
			if got[i] != want[i].String() {
				t.Errorf("%s: loadedAddresses.%s[%d] differs", what, name, i)
			}
		}
	}
	if tx.ComputeUnits != nil {
		if jsonU64(t, meta["computeUnitsConsumed"], what+" computeUnitsConsumed") != *tx.ComputeUnits {
			t.Errorf("%s: computeUnitsConsumed %v, model %d", what, meta["computeUnitsConsumed"], *tx.ComputeUnits)
		}
	} else if v, ok := meta["computeUnitsConsumed"]; ok && v != nil {
		t.Errorf("%s: computeUnitsConsumed %v, model none", what, v)
	}
}

func checkBlockJSON(t reporter, handler func(*fasthttp.RequestCtx), w *world.World, bi int, b *world.Block, enc string) {
	t.Helper()
	what := fmt.Sprintf("getBlock(%d,%s)", b.Slot, enc)
	r := callRPC(t, handler, "getBlock", []any{b.Slot, map[string]any{"encoding": enc, "maxSupportedTransactionVersion": 0, "transactionDetails": "full", "rewards": true}})
	if isDanglingFirst(w, bi) {
		if r.Error == nil || r.Error.Code != -32603 {
			t.Errorf("%s with dangling parent: %s %+v, want internal error", what, r.Result, r.Error)
		}
		return
	}
	if r.Error != nil {
		t.Fatalf("%s: error %+v", what, r.Error)
	}
	res, ok := decodeJSON(t, r.Result).(map[string]any)
	if !ok {
		t.Fatalf("%s: result %s", what, r.Result)
	}
	if res["blockhash"] != base58.Encode(b.Blockhash[:]) {
		t.Errorf("%s: blockhash %v, model %s", what, res["blockhash"], base58.Encode(b.Blockhash[:]))
	}
	if prev, ok := expectedPrev(b); ok {
		if res["previousBlockhash"] != base58.Encode(prev[:]) {
			t.Errorf("%s: previousBlockhash %v, model %s", what, res["previousBlockhash"], base58.Encode(prev[:]))
		}
	} else if res["previousBlockhash"] != nil {
		t.Errorf("%s: previousBlockhash %v, model null", what, res["previousBlockhash"])
	}
	if jsonU64(t, res["parentSlot"], what+" parentSlot") != b.ParentSlot {
		t.Errorf("%s: parentSlot %v, model %d", what, res["parentSlot"], b.ParentSlot)
	}
	if bt := expectedGetBlockTime(b); bt == 0 {
		if res["blockTime"] != nil {
			t.Errorf("%s: blockTime %v, model null", what, res["blockTime"])
		}
	} else if jsonI64(t, res["blockTime"], what+" blockTime") != bt {
		t.Errorf("%s: blockTime %v, model %d", what, res["blockTime"], bt)
	}
	switch {
	case b.Height != nil:
		if jsonU64(t, res["blockHeight"], what+" blockHeight") != *b.Height {
			t.Errorf("%s: blockHeight %v, model %d", what, res["blockHeight"], *b.Height)
		}
	case b.Slot == 0:
		if jsonU64(t, res["blockHeight"], what+" blockHeight") != 0 {
			t.Errorf("%s: blockHeight %v, want 0 for slot 0", what, res["blockHeight"])
		}
	default:
		if res["blockHeight"] != nil {
			t.Errorf("%s: blockHeight %v, model null", what, res["blockHeight"])
		}
	}
	// rewards
	rewards, _ := res["rewards"].([]any)
	if len(rewards) != len(b.RewardList) {
		t.Fatalf("%s: %d rewards, model %d", what, len(rewards), len(b.RewardList))
	}
	for i, rw := range b.RewardList {
		got := rewards[i].(map[string]any)
		if got["pubkey"] != rw.Pubkey || jsonI64(t, got["lamports"], what+" lamports") != rw.Lamports ||
			jsonU64(t, got["postBalance"], what+" postBalance") != rw.PostBalance || got["rewardType"] != world.RewardTypeName(rw.RewardType) {
			t.Errorf("%s: reward %d = %v, model %+v", what, i, got, rw)
		}
		if rw.Commission == "" {
			if got["commission"] != nil {
				t.Errorf("%s: reward %d commission %v, model null", what, i, got["commission"])
			}
		} else if fmt.Sprint(got["commission"]) != rw.Commission {
			t.Errorf("%s: reward %d commission %v, model %s", what, i, got["commission"], rw.Commission)
		}
	}
	txs, _ := res["transactions"].([]any)
	if len(txs) != len(b.Txs) {
		t.Fatalf("%s: %d transactions, model %d", what, len(txs), len(b.Txs))
	}
	for i, tx := range b.Txs {
		checkTxObjectJSON(t, fmt.Sprintf("%s tx %d", what, i), txs[i].(map[string]any), tx, enc)
	}
}

func checkBlockTime(t reporter, multi *MultiEpoch, handler func(*fasthttp.RequestCtx), slot uint64, want int64) {
	t.Helper()
	r := callRPC(t, handler, "getBlockTime", []any{slot})
	wantJSON := "null"
	if want != 0 {
		wantJSON = fmt.Sprint(want)
	}
	if r.Error != nil || string(r.Result) != wantJSON {
		t.Errorf("getBlockTime(%d) = %s %+v, model %s", slot, r.Result, r.Error, wantJSON)
	}
	resp, err := multi.GetBlockTime(context.Background(), &old_faithful_grpc.BlockTimeRequest{Slot: slot})
	if err != nil || resp.BlockTime != want {
		t.Errorf("grpc GetBlockTime(%d) = %v, %v; model %d", slot, resp, err, want)
	}
}

func checkTxGRPC(t reporter, multi *MultiEpoch, tx *world.Tx) {
	t.Helper()
	sig := tx.Sig()
	resp, err := multi.GetTransaction(context.Background(), &old_faithful_grpc.TransactionRequest{Signature: sig[:]})
	afterUnaryReturn()
	if err != nil {
		t.Fatalf("grpc GetTransaction(%s): %v", sig, err)
	}
	if resp.Slot != tx.Slot || resp.BlockTime != tx.Block.BlockTime || resp.Index == nil || *resp.Index != uint64(tx.Position) {
		t.Errorf("grpc GetTransaction(%s): slot %d time %d index %v; model %d %d %d", sig, resp.Slot, resp.BlockTime, resp.Index, tx.Slot, tx.Block.BlockTime, tx.Position)
	}
	if !bytes.Equal(resp.Transaction.Transaction, tx.Raw) || !bytes.Equal(resp.Transaction.Meta, tx.Meta) {
		t.Errorf("grpc GetTransaction(%s): transaction or metadata bytes differ", sig)
	}
}

func checkTxJSON(t reporter, handler func(*fasthttp.RequestCtx), tx *world.Tx, enc string) {
	t.Helper()
	what := fmt.Sprintf("getTransaction(%s,%s)", tx.Sig(), enc)
	r := callRPC(t, handler, "getTransaction", []any{tx.Sig().String(), map[string]any{"encoding": enc, "maxSupportedTransactionVersion": 0}})
	if r.Error != nil {
		t.Fatalf("%s: error %+v", what, r.Error)
	}
	res, ok := decodeJSON(t, r.Result).(map[string]any)
	if !ok {
		t.Fatalf("%s: result %s", what, r.Result)
	}
	if jsonU64(t, res["slot"], what+" slot") != tx.Slot {
		t.Errorf("%s: slot %v, model %d", what, res["slot"], tx.Slot)
	}
	if tx.Block.BlockTime == 0 {
		// TODO(server quirk Q1, multiepoch-getTransaction.go:183): an unknown block time (0) is
		// reported as `"blockTime":0` by getTransaction, while getBlock, getBlockTime and
		// getSignaturesForAddress report null (like Solana RPC does). Accept both.
		if res["blockTime"] != nil && jsonI64(t, res["blockTime"], what+" blockTime") != 0 {
			t.Errorf("%s: blockTime %v, model null", what, res["blockTime"])
		}
	} else if jsonI64(t, res["blockTime"], what+" blockTime") != tx.Block.BlockTime {
		t.Errorf("%s: blockTime %v, model %d", what, res["blockTime"], tx.Block.BlockTime)
	}
	checkTxObjectJSON(t, what, res, tx, enc)
}

func checkSignaturesForAddress(t reporter, handler func(*fasthttp.RequestCtx), worlds []*world.World) {
	t.Helper()
	// union of the addresses, newest epoch first
	seen := make(map[solana.PublicKey]bool)
	var addrs []solana.PublicKey
	for _, w := range worlds {
		for _, a := range w.Addresses {
			if !seen[a] {
				seen[a] = true
				addrs = append(addrs, a)
			}
		}
	}
	for ai, a := range addrs {
		var want []*world.Tx
		for i := len(worlds) - 1; i >= 0; i-- {
			want = append(want, worlds[i].ByAddress[a]...)
		}
		check := func(opts map[string]any, want []*world.Tx) {
			params := []any{a.String()}
			if opts != nil {
				params = append(params, opts)
			}
			what := fmt.Sprintf("getSignaturesForAddress(%s,%v)", a, opts)
			r := callRPC(t, handler, "getSignaturesForAddress", params)
			if r.Error != nil {
				t.Fatalf("%s: error %+v", what, r.Error)
			}
			got, ok := decodeJSON(t, r.Result).([]any)
			if !ok {
				t.Fatalf("%s: result %s", what, r.Result)
			}
			if len(got) != len(want) {
				t.Fatalf("%s: %d entries, model %d", what, len(got), len(want))
			}
			if len(worlds) > 1 && !worldStrictEpochOrder {
				// TODO(server defect D2, multiepoch-getSignaturesForAddress.go:198): the handler
				// ranges over the map epoch -> transactions, so with more than one epoch the
				// per-epoch groups come out in random order instead of newest epoch first. Until
				// that is fixed only the order inside each epoch group is compared: the groups
				// are put back into descending epoch order here.
				groups := make(map[uint64][]any)
				var order []uint64
				for _, g := range got {
					e := jsonU64(t, g.(map[string]any)["slot"], what+" slot") / world.SlotsPerEpoch
					if _, ok := groups[e]; !ok {
						order = append(order, e)
					}
					groups[e] = append(groups[e], g)
				}
				sort.Slice(order, func(i, j int) bool { return order[i] > order[j] })
				got = got[:0:0]
				for _, e := range order {
					got = append(got, groups[e]...)
				}
			}
			for i, tx := range want {
				e := got[i].(map[string]any)
				if e["signature"] != tx.Sig().String() {
					t.Fatalf("%s: entry %d is %v, model %s (slot %d pos %d)", what, i, e["signature"], tx.Sig(), tx.Slot, tx.Position)
				}
				if jsonU64(t, e["slot"], what+" slot") != tx.Slot || e["confirmationStatus"] != "finalized" {
					t.Errorf("%s: entry %d slot/status %v %v", what, i, e["slot"], e["confirmationStatus"])
				}
				if tx.Block.BlockTime == 0 {
					if e["blockTime"] != nil {
						t.Errorf("%s: entry %d blockTime %v, model null", what, i, e["blockTime"])
					}
				} else if jsonI64(t, e["blockTime"], what+" blockTime") != tx.Block.BlockTime {
					t.Errorf("%s: entry %d blockTime %v, model %d", what, i, e["blockTime"], tx.Block.BlockTime)
				}
				wantErr := any(nil)
				if tx.Failed {
					wantErr = map[string]any{"InstructionError": []any{json.Number(fmt.Sprint(tx.ErrInstr)), map[string]any{"Custom": json.Number(fmt.Sprint(tx.ErrCode))}}}
				}
				if !reflect.DeepEqual(e["err"], wantErr) {
					t.Errorf("%s: entry %d err %v, model %v", what, i, e["err"], wantErr)
				}
				if tx.Memo == nil {
					if e["memo"] != nil {
						t.Errorf("%s: entry %d memo %v, model null", what, i, e["memo"])
					}
				} else if e["memo"] != *tx.Memo {
					t.Errorf("%s: entry %d memo %v, model %q", what, i, e["memo"], *tx.Memo)
				}
			}
		}
		check(nil, want)
		if len(want) >= 2 {
			k := 1 + ai%(len(want)-1)
			check(map[string]any{"limit": k}, want[:k])
			check(map[string]any{"before": want[k-1].Sig().String()}, want[k:])
			check(map[string]any{"until": want[k].Sig().String()}, want[:k+1])
			check(map[string]any{"before": want[0].Sig().String(), "until": want[len(want)-1].Sig().String(), "limit": 1000}, want[1:])
		}
	}
	// an address nobody mentions
	var nobody solana.PublicKey
	nobody[5] = 9
	if r := callRPC(t, handler, "getSignaturesForAddress", []any{nobody.String()}); r.Error != nil || strings.TrimSpace(string(r.Result)) != "[]" {
		t.Errorf("getSignaturesForAddress(unmentioned) = %s %+v, want []", r.Result, r.Error)
	}
}
