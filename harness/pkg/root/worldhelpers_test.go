package main

// Helpers shared by the harnesses that run the real server against a synthetic world
// (github.com/rpcpool/yellowstone-faithful/zzverif/world).

import (
	"context"
	"encoding/json"
	"flag"
	"fmt"
	"os"
	"path/filepath"
	"runtime/debug"
	"strings"
	"time"

	"github.com/allegro/bigcache/v3"
	"github.com/rpcpool/yellowstone-faithful/accum"
	"github.com/rpcpool/yellowstone-faithful/carreader"
	"github.com/rpcpool/yellowstone-faithful/gsfa"
	hugecache "github.com/rpcpool/yellowstone-faithful/huge-cache"
	"github.com/rpcpool/yellowstone-faithful/indexes"
	"github.com/rpcpool/yellowstone-faithful/indexmeta"
	"github.com/rpcpool/yellowstone-faithful/iplddecoders"
	"github.com/rpcpool/yellowstone-faithful/zzverif/world"
	"github.com/urfave/cli/v2"
	"github.com/valyala/fasthttp"
)

// worldGenesisPath is the mainnet genesis archive shipped with the repository; epoch 0 configs
// must name a genesis file (NewEpochFromConfig reads it unconditionally for epoch 0).
const worldGenesisPath = "/repo/radiance/genesis/testdata/mainnet/genesis.tar.bz2"

// worldGenesisCreationTime is genesis.CreationTime.Unix() of worldGenesisPath: the server
// reports it as the block time of slot 0 in getBlock (JSON and gRPC), whatever the block stores.
const worldGenesisCreationTime = int64(1584368940)

// buildEpochDir materialises a world under dir: writes the CAR, builds every index the way
// `faithful-cli index all` does (cid-to-offset-and-size, slot-to-cid, sig-to-cid, sig-exists,
// slot-to-blocktime) plus, optionally, the gsfa index, and writes an epoch config (YAML) that
// LoadConfig/NewEpochFromConfig accept. It returns the path of the config file.
//
// withGsfa must be false for worlds generated with Params.SplitTxData (see buildGsfaIndex).
func buildEpochDir(dir string, w *world.World, withGsfa bool) (configPath string, err error) {
	ctx := context.Background()
	carPath := filepath.Join(dir, fmt.Sprintf("epoch-%d.car", w.Epoch))
	indexDir := filepath.Join(dir, "indexes")
	tmpDir := filepath.Join(dir, "tmp")
	for _, d := range []string{indexDir, tmpDir} {
		if err := os.MkdirAll(d, 0o755); err != nil {
			return "", err
		}
	}
	if err := os.WriteFile(carPath, w.CAR, 0o644); err != nil {
		return "", err
	}
	paths, numItems, err := createAllIndexes(ctx, indexes.NetworkMainnet, tmpDir, carPath, indexDir)
	if err != nil {
		return "", fmt.Errorf("createAllIndexes: %w", err)
	}
	if numItems != uint64(len(w.Objects)) {
		return "", fmt.Errorf("createAllIndexes counted %d items, the world has %d objects", numItems, len(w.Objects))
	}
	var sb strings.Builder
	fmt.Fprintf(&sb, "epoch: %d\nversion: 1\ndata:\n  car:\n    uri: '%s'\nindexes:\n", w.Epoch, carPath)
	sb.WriteString(paths.String())
	if withGsfa {
		gsfaDir, err := buildGsfaIndex(ctx, w.Epoch, indexes.NetworkMainnet, carPath, indexDir, tmpDir)
		if err != nil {
			return "", fmt.Errorf("buildGsfaIndex: %w", err)
		}
		fmt.Fprintf(&sb, "  gsfa:\n    uri: '%s'\n", gsfaDir)
	}
	if w.Epoch == 0 {
		fmt.Fprintf(&sb, "genesis:\n  uri: '%s'\n", worldGenesisPath)
	}
	configPath = filepath.Join(dir, fmt.Sprintf("epoch-%d.yml", w.Epoch))
	if err := os.WriteFile(configPath, []byte(sb.String()), 0o644); err != nil {
		return "", err
	}
	return configPath, nil
}

// buildGsfaIndex replicates the Action closure of `faithful-cli index gsfa` (cmd-x-index-gsfa.go)
// with the same library calls, minus its process-global side effects:
//   - it does NOT set ipldbindcode.DisableHashVerification (the CLI sets it to true unless
//     --verify-hash is given), so frame hashes of transaction data stay verified;
//   - signature verification (--sigverify, default true in the CLI, klog.Fatalf on failure) is
//     off because generated signatures are random bytes;
//   - errors are returned instead of klog.Exit/Fatalf; an error inside the accumulator callback
//     is recorded and returned after Run (returning it from the callback would panic in the
//     accumulator's flusher goroutine).
//
// It returns the gsfa index directory.
func buildGsfaIndex(ctx context.Context, epoch uint64, network indexes.Network, carPath, indexDir, tmpDir string) (string, error) {
	file, err := os.Open(carPath)
	if err != nil {
		return "", err
	}
	defer file.Close()
	rd, err := carreader.New(file)
	if err != nil {
		return "", fmt.Errorf("failed to open CAR: %w", err)
	}
	rootCID := rd.Header.Roots[0]
	gsfaIndexDir := filepath.Join(indexDir, formatIndexDirname_gsfa(epoch, rootCID, network))
	if err := os.Mkdir(gsfaIndexDir, 0o755); err != nil {
		return "", fmt.Errorf("failed to create index dir: %w", err)
	}
	meta := indexmeta.Meta{}
	if err := meta.AddUint64(indexmeta.MetadataKey_Epoch, epoch); err != nil {
		return "", err
	}
	if err := meta.AddCid(indexmeta.MetadataKey_RootCid, rootCID); err != nil {
		return "", err
	}
	if err := meta.AddString(indexmeta.MetadataKey_Network, string(network)); err != nil {
		return "", err
	}
	gsfaTmp := filepath.Join(tmpDir, fmt.Sprintf("yellowstone-faithful-gsfa-%d", epoch))
	if err := os.MkdirAll(gsfaTmp, 0o755); err != nil {
		return "", err
	}
	indexW, err := gsfa.NewGsfaWriter(gsfaIndexDir, meta, epoch, rootCID, network, gsfaTmp)
	if err != nil {
		return "", fmt.Errorf("error while opening gsfa index writer: %w", err)
	}
	var cbErr error
	acc := accum.NewObjectAccumulator(
		rd,
		iplddecoders.KindBlock,
		func(parent *accum.ObjectWithMetadata, children []accum.ObjectWithMetadata) error {
			if cbErr != nil {
				return nil
			}
			if parent == nil {
				// trailing objects after the last block (Subset and Epoch nodes)
				for _, c := range children {
					if iplddecoders.Kind(c.ObjectData[1]) == iplddecoders.KindTransaction {
						cbErr = fmt.Errorf("transaction %s after the last block", c.Cid)
					}
				}
				return nil
			}
			block, err := iplddecoders.DecodeBlock(parent.ObjectData)
			if err != nil {
				cbErr = fmt.Errorf("error while decoding block: %w", err)
				return nil
			}
			transactions, err := accum.ObjectsToTransactionsAndMetadata(block, children)
			if err != nil {
				cbErr = fmt.Errorf("error while converting objects to transactions: %w", err)
				return nil
			}
			defer accum.PutTransactionWithSlotSlice(transactions)
			for ii := range transactions {
				txWithInfo := transactions[ii]
				accountKeys := txWithInfo.Transaction.Message.AccountKeys
				if txWithInfo.Metadata != nil && txWithInfo.Metadata.IsProtobuf() {
					meta := txWithInfo.Metadata.GetProtobuf()
					accountKeys = append(accountKeys, byteSlicesToKeySlice(meta.LoadedReadonlyAddresses)...)
					accountKeys = append(accountKeys, byteSlicesToKeySlice(meta.LoadedWritableAddresses)...)
				}
				hasMeta := txWithInfo.Metadata != nil
				isSuccess := false
				if txWithInfo.Metadata != nil && txWithInfo.Metadata.IsProtobuf() {
					isSuccess = txWithInfo.Metadata.GetProtobuf().Err == nil
				}
				isVote := IsVote(&txWithInfo.Transaction)
				if err := indexW.Push(txWithInfo.Offset, txWithInfo.Length, txWithInfo.Slot, accountKeys, hasMeta, isSuccess, isVote); err != nil {
					cbErr = fmt.Errorf("error while pushing to gsfa index: %w", err)
					return nil
				}
			}
			return nil
		},
		iplddecoders.KindEntry,
		iplddecoders.KindRewards,
	)
	runErr := acc.Run(ctx)
	closeErr := indexW.Close()
	switch {
	case runErr != nil:
		return "", fmt.Errorf("error while accumulating objects: %w", runErr)
	case cbErr != nil:
		return "", cbErr
	case closeErr != nil:
		return "", fmt.Errorf("error while closing gsfa writer: %w", closeErr)
	}
	return gsfaIndexDir, nil
}

// worldTuneGC switches the garbage collector off and returns the function that restores it.
// Reason: the real sig-exists index writer (bucketteer.NewWriter, used by createAllIndexes)
// allocates 65536 slices of 16000 uint64 = 8.4 GB for every index it builds, whatever the number
// of signatures. On fresh (never used) address space this costs nothing: the Go runtime knows
// fresh pages are zero and the pages are never touched. As soon as the collector has freed such a
// block, the next writer gets recycled spans that must be cleared: 8.4 GB of memclr and page
// faults per world (measured: 2..100 s per world instead of 0.3 s). With the collector off every
// world costs 8.4 GB of untouched virtual address space and only a few MB of resident memory.
// Call it around loops that build many epoch directories in one process.
func worldTuneGC() func() {
	oldPct := debug.SetGCPercent(-1)
	return func() { debug.SetGCPercent(oldPct) }
}

// newWorldCache creates the server's object cache without bigcache's janitor goroutine
// (CleanWindow = 0; the server uses bigcache.DefaultConfig(5 min), whose CleanWindow of 1 s starts
// a real-time ticker goroutine, and 1024 shards that pre-allocate ~300 MB of address space).
func newWorldCache() (*hugecache.Cache, error) {
	return hugecache.NewWithConfig(context.Background(), bigcache.Config{
		Shards:             16,
		LifeWindow:         5 * time.Minute,
		CleanWindow:        0,
		MaxEntriesInWindow: 1024,
		MaxEntrySize:       512,
		HardMaxCacheSize:   0,
	})
}

// loadEpoch loads an epoch config with the real LoadConfig + Validate + NewEpochFromConfig, with a
// private cache (the cache is keyed by CID and slot only: two worlds with the same epoch number
// must never share one).
func loadEpoch(configPath string) (*Epoch, error) {
	cache, err := newWorldCache()
	if err != nil {
		return nil, err
	}
	return loadEpochWith(configPath, cache)
}

// newServerLoader returns a loader whose epochs all share ONE cache, which is what the rpc
// command does for the epochs of a server (cmd-rpc.go creates a single cache and hands it to every
// NewEpochFromConfig). Scenarios that model a server with several epochs use it; scenarios that
// load variants of the same epoch one after the other (file faults) keep private caches, or a
// cache hit would hide the fault they are about.
func newServerLoader() func(configPath string) (*Epoch, error) {
	var cache *hugecache.Cache
	return func(configPath string) (*Epoch, error) {
		if cache == nil {
			c, err := newWorldCache()
			if err != nil {
				return nil, err
			}
			cache = c
		}
		return loadEpochWith(configPath, cache)
	}
}

func loadEpochWith(configPath string, cache *hugecache.Cache) (*Epoch, error) {
	config, err := LoadConfig(configPath)
	if err != nil {
		return nil, fmt.Errorf("LoadConfig: %w", err)
	}
	if err := config.Validate(); err != nil {
		return nil, fmt.Errorf("config.Validate: %w", err)
	}
	c := cli.NewContext(cli.NewApp(), flag.NewFlagSet("world", flag.ContinueOnError), nil)
	c.Context = context.Background()
	return NewEpochFromConfig(config, c, cache, nil)
}

// newWorldServer loads the given epoch configs into a fresh MultiEpoch and returns it together
// with the JSON-RPC handler.
func newWorldServer(configPaths ...string) (*MultiEpoch, func(*fasthttp.RequestCtx), error) {
	multi := NewMultiEpoch(&Options{GsfaOnlySignatures: false, EpochSearchConcurrency: 2})
	for _, cp := range configPaths {
		ep, err := loadEpoch(cp)
		if err != nil {
			multi.Close()
			return nil, nil, err
		}
		if err := multi.AddEpoch(ep.Epoch(), ep); err != nil {
			multi.Close()
			return nil, nil, err
		}
	}
	return multi, newMultiEpochHandler(multi, nil), nil
}

// jsonRPC sends one JSON-RPC 2.0 request through the server's fasthttp handler and returns the
// HTTP status and the response body.
func jsonRPC(handler func(*fasthttp.RequestCtx), method string, params any) (status int, body []byte) {
	reqBody, err := json.Marshal(map[string]any{"jsonrpc": "2.0", "id": 1, "method": method, "params": params})
	if err != nil {
		panic(err)
	}
	var ctx fasthttp.RequestCtx
	ctx.Init(&fasthttp.Request{}, nil, nil)
	ctx.Request.Header.SetMethod("POST")
	ctx.Request.SetRequestURI("/")
	ctx.Request.Header.SetContentType("application/json")
	ctx.Request.SetBody(reqBody)
	ctx.Request.Header.SetContentLength(len(reqBody))
	handler(&ctx)
	return ctx.Response.StatusCode(), append([]byte(nil), ctx.Response.Body()...)
}
