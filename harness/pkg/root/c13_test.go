package main

import (
	"strings"
	"bytes"
	"context"
	"encoding/json"
	"fmt"
	"os"
	"path/filepath"
	"time"

	"dsim"
	"dsim/runner"

	"github.com/rpcpool/yellowstone-faithful/compactindexsized"
	"github.com/rpcpool/yellowstone-faithful/zzverif/world"
)

// C13 (loaded epoch): the CAR, or one index file, of an otherwise complete epoch is cut short at
// some byte offset; the epoch is opened by the real loader and asked, through one long-lived
// handle and several times per key, for everything the complete epoch answers. Every answer is
// the complete epoch's answer or an error.
func init() { runner.Register("C13E", scenarioC13E) }

func c13mk(id int) (world.Params, uint64) {
	p := world.Params{Epoch: uint64(40 + id), Salt: uint64(1300 + id), NumBlocks: 3 + id, MaxEntries: 2, MaxTxPerEntry: 3, NumAccounts: 8, MaxFrameBytes: []int{120, 60, 400}[id%3]}
	return p, uint64(1313 + id)
}

type c13answer struct {
	method string
	params any
	body   []byte
}

// c13isError reports whether a JSON-RPC body carries an error member.
func c13isError(body []byte) bool {
	var m map[string]json.RawMessage
	if err := json.Unmarshal(body, &m); err != nil {
		return false
	}
	e, ok := m["error"]
	return ok && string(e) != "null"
}

// c13isNotFound reports whether an error answer says "not found" (the server's CodeNotFound, or
// the words): the one kind of error the property forbids for a key the complete file answers.
func c13isNotFound(body []byte) bool {
	var m struct {
		Error *struct {
			Code    int    `json:"code"`
			Message string `json:"message"`
		} `json:"error"`
	}
	if err := json.Unmarshal(body, &m); err != nil || m.Error == nil {
		return false
	}
	return m.Error.Code == CodeNotFound || strings.Contains(strings.ToLower(m.Error.Message), "not found")
}

// c13core reduces an answer to what the property speaks about. getSignaturesForAddress documents
// err, memo and blockTime as best-effort decorations that the handler deliberately degrades to
// null when their source cannot be read (it logs and goes on); the looked-up answer is the list
// of (signature, slot) pairs. Every other method is compared byte for byte.
func c13core(method string, body []byte) []byte {
	if method != "getSignaturesForAddress" {
		return body
	}
	var m struct {
		Result []struct {
			Signature string `json:"signature"`
			Slot      uint64 `json:"slot"`
		} `json:"result"`
	}
	if err := json.Unmarshal(body, &m); err != nil {
		return body
	}
	out, _ := json.Marshal(m.Result)
	return out
}

func scenarioC13E(x *runner.X) {
	t := x.Tape
	r := t.SubRand()
	engineKnobs(nil)
	pw, err := getPooledWorld("c13", t.Intn(3), c13mk, true)
	if err != nil {
		x.Failf("harness", "cannot build the pooled world", "%v", err)
		return
	}
	w := pw.w
	// half of the runs serve a second, complete epoch next to the damaged one: the server then
	// searches the epochs for a signature instead of assuming the only one it has
	var pw2 *pooledWorld
	if t.Bool(0.5) {
		id2 := t.Intn(3)
		if c13p, _ := c13mk(id2); c13p.Epoch != w.Epoch {
			pw2, err = getPooledWorld("c13", id2, c13mk, true)
			if err != nil {
				x.Failf("harness", "cannot build the pooled world", "%v", err)
				return
			}
		}
	}
	set, err := c10setFromDir(&builtWorld{w: w, dir: pw.dir})
	if err != nil {
		x.Failf("harness", "file set", "%v", err)
		return
	}
	roles := []string{"car", "car", "car", "cid_to_offset_and_size", "slot_to_cid", "sig_to_cid", "sig_exists", "slot_to_blocktime", "gsfa_linked_log"}
	role := roles[t.Intn(len(roles))]
	var full []byte
	gsfaFile := ""
	if role == "car" {
		full = w.CAR
	} else if role == "gsfa_linked_log" {
		m, _ := filepath.Glob(filepath.Join(set.files["gsfa"], "*linked-log*"))
		if len(m) != 1 {
			x.Failf("harness", "linked log file of the gsfa index not found", "%v", m)
			return
		}
		gsfaFile = m[0]
		full, err = os.ReadFile(gsfaFile)
		if err != nil || len(full) == 0 {
			x.Failf("harness", "read linked log", "%v", err)
			return
		}
	} else {
		full, err = os.ReadFile(set.files[role])
		if err != nil {
			x.Failf("harness", "read index", "%v", err)
			return
		}
	}
	// the cut: a structure boundary +-2, the tail, the head, or anywhere
	size := len(full)
	cut := 0
	mode := t.Intn(4)
	switch {
	case mode == 0 && role == "car":
		o := w.Objects[t.Intn(len(w.Objects))]
		base := []int{int(o.Offset), int(o.Offset) + o.VarintLen(), int(o.Offset) + o.VarintLen() + o.Cid.ByteLen(), int(o.Offset + o.SectionLen)}[t.Intn(4)]
		cut = base + t.Intn(5) - 2
	case mode == 1:
		cut = size - 1 - t.Intn(40)
	case mode == 2:
		cut = t.Intn(w.HeaderLen + 60)
	default:
		cut = r.Intn(size)
	}
	if cut < 0 {
		cut = 0
	}
	if cut >= size {
		cut = size - 1
	}
	desc := fmt.Sprintf("%s cut at %d of %d bytes", role, cut, size)
	x.Note("truncation", desc)
	x.Digest(desc, w.Epoch)
	x.Fault("truncate")

	dir := filepath.Join(x.TempDir(), "epoch")
	os.MkdirAll(dir, 0o755)
	cp := set.clone()
	if role == "car" {
		cp.car = filepath.Join(dir, "epoch.car")
		os.WriteFile(cp.car, full[:cut], 0o644)
	} else if role == "gsfa_linked_log" {
		// a copy of the address-index directory with its linked log cut short
		gd := filepath.Join(dir, "gsfa.indexdir")
		os.MkdirAll(gd, 0o755)
		ents, _ := os.ReadDir(set.files["gsfa"])
		for _, e := range ents {
			b, _ := os.ReadFile(filepath.Join(set.files["gsfa"], e.Name()))
			if e.Name() == filepath.Base(gsfaFile) {
				b = full[:cut]
			}
			os.WriteFile(filepath.Join(gd, e.Name()), b, 0o644)
		}
		cp.files["gsfa"] = gd
	} else {
		cp.files[role] = filepath.Join(dir, "cut.index")
		os.WriteFile(cp.files[role], full[:cut], 0o644)
	}
	cfg := cp.write(filepath.Join(dir, "epoch.yml"))

	// the questions, and the complete epoch's answers
	var qs []c13answer
	for i, b := range w.Blocks {
		if i >= 6 {
			break
		}
		qs = append(qs, c13answer{method: "getBlock", params: []any{b.Slot, map[string]any{"encoding": []string{"base64", "json"}[i%2], "maxSupportedTransactionVersion": 0}}})
		qs = append(qs, c13answer{method: "getBlockTime", params: []any{b.Slot}})
	}
	step := 1 + len(w.Txs)/8
	for i := 0; i < len(w.Txs); i += step {
		qs = append(qs, c13answer{method: "getTransaction", params: []any{w.Txs[i].Sig().String(), map[string]any{"encoding": "json", "maxSupportedTransactionVersion": 0}}})
	}
	nAddrQ := 2
	if role == "gsfa_linked_log" {
		nAddrQ = 8
	}
	for i := 0; i < nAddrQ && i < len(w.Addresses); i++ {
		qs = append(qs, c13answer{method: "getSignaturesForAddress", params: []any{w.Addresses[(i*7)%len(w.Addresses)].String()}})
	}
	rounds := 2 + t.Intn(2)
	ctx := context.Background()
	x.Sim(runner.SimOpts{Phase: "truncated-epoch", Cfg: dsim.Config{MaxSteps: 50000000, MaxSimTime: 1000 * time.Hour, NoTimerRace: true}}, func() {
		s := dsim.Active()
		fullEp, err := loadEpoch(pw.cfg)
		if err != nil {
			s.Fail("harness", "the complete epoch does not load", err.Error())
			return
		}
		fullMulti := NewMultiEpoch(&Options{EpochSearchConcurrency: 2})
		fullMulti.AddEpoch(fullEp.Epoch(), fullEp)
		if pw2 != nil {
			other, err := loadEpoch(pw2.cfg)
			if err != nil {
				s.Fail("harness", "the second complete epoch does not load", err.Error())
				return
			}
			fullMulti.AddEpoch(other.Epoch(), other)
		}
		fh := newMultiEpochHandler(fullMulti, nil)
		for i := range qs {
			_, qs[i].body = jsonRPC(fh, qs[i].method, qs[i].params)
			if c13isError(qs[i].body) {
				s.Fail("harness", "the complete epoch answers a model query with an error", qs[i].method+": "+clipS(string(qs[i].body), 300))
				return
			}
		}
		s.Quiesce()
		fullMulti.Close()

		ep, err := loadEpoch(cfg)
		if err != nil {
			x.Probe("c13e.open_refused")
			return
		}
		x.Probe("c13e.opened")
		multi := NewMultiEpoch(&Options{EpochSearchConcurrency: 2})
		multi.AddEpoch(ep.Epoch(), ep)
		defer multi.Close()
		if pw2 != nil {
			other, err := loadEpoch(pw2.cfg)
			if err != nil {
				s.Fail("harness", "the second complete epoch does not load", err.Error())
				return
			}
			multi.AddEpoch(other.Epoch(), other)
			x.Probe("c13e.two_epochs")
		}
		h := newMultiEpochHandler(multi, nil)
		ostep := 1 + len(w.Objects)/150
		for round := 0; round < rounds; round++ {
			// objects by CID through the epoch handle
			for i := 0; i < len(w.Objects); i += ostep {
				o := w.Objects[i]
				data, err := ep.GetNodeByCid(ctx, o.Cid)
				if err != nil {
					if compactindexsized.IsNotFound(err) {
						x.Failf("oracle", "truncated "+role+": a stored object is reported as not found", "%s; round %d: %s %s: %v", desc, round, world.KindName(o.Kind), o.Cid, err)
						return
					}
					x.Probe("c13e.object_error")
					continue
				}
				if !bytes.Equal(data, o.Data) {
					x.Failf("oracle", "truncated "+role+": a stored object is answered with different or no bytes", "%s; round %d: %s %s at %d+%d: got %d bytes, stored %d", desc, round, world.KindName(o.Kind), o.Cid, o.Offset, o.SectionLen, len(data), len(o.Data))
					return
				}
				x.Probe("c13e.object_same")
			}
			// the JSON-RPC surface
			for _, q := range qs {
				_, body := jsonRPC(h, q.method, q.params)
				if c13isError(body) {
					if c13isNotFound(body) {
						x.Failf("oracle", "truncated "+role+": "+q.method+" answers 'not found' for a key the complete epoch answers", "%s; round %d: params %v\n got  %s\n full %s", desc, round, q.params, clipS(string(body), 600), clipS(string(q.body), 600))
						return
					}
					x.Probe("c13e.rpc_error")
					continue
				}
				if !bytes.Equal(c13core(q.method, body), c13core(q.method, q.body)) {
					x.Failf("oracle", "truncated "+role+": "+q.method+" answers differently from the complete epoch without an error", "%s; round %d: params %v\n got  %s\n full %s", desc, round, q.params, clipS(string(body), 600), clipS(string(q.body), 600))
					return
				}
				x.Probe("c13e.rpc_same")
			}
		}
		s.Quiesce()
	})
	x.SetNontrivial(true)
}
