package main

import (
	"bytes"
	"encoding/base64"
	"encoding/binary"
	"encoding/csv"
	"fmt"
	"io"
	"os"
	"path/filepath"
	"strconv"
	"time"

	"dsim"
	"dsim/fault"
	"dsim/runner"
	"dsim/simsync"

	"github.com/anjor/carlet"
	"github.com/ipfs/go-cid"
	"github.com/rpcpool/yellowstone-faithful/iplddecoders"
	splitcarfetcher "github.com/rpcpool/yellowstone-faithful/split-car-fetcher"
	"github.com/rpcpool/yellowstone-faithful/zzverif/world"
	"github.com/urfave/cli/v2"
)

// C16 (splitter half): the real split-car command runs, under the simulator and optionally with
// disk faults, on a generated epoch CAR with a target size that forces 1..N pieces. The pieces
// and both metadata files are then parsed by the harness' own CAR framing code and compared with
// the model: every block together with all of its objects, byte-identical and in the original
// order, in exactly one piece; recorded sizes equal to what is on disk; and the real split-CAR
// reader over the written pieces reproduces the original bytes.
func init() { runner.Register("C16S", scenarioC16S) }

type c16section struct {
	off, length int // whole section
	cid         cid.Cid
	data        []byte
}

// c16parse parses a CARv1 file with the harness' own framing code.
func c16parse(b []byte) (headerLen int, header []byte, secs []c16section, err error) {
	hl, n := binary.Uvarint(b)
	if n <= 0 || int(hl)+n > len(b) {
		return 0, nil, nil, fmt.Errorf("bad header length")
	}
	headerLen = n + int(hl)
	header = b[n:headerLen]
	off := headerLen
	for off < len(b) {
		sl, n := binary.Uvarint(b[off:])
		if n <= 0 || sl < 36 || off+n+int(sl) > len(b) {
			return headerLen, header, secs, fmt.Errorf("bad section at %d (len %d of %d)", off, sl, len(b))
		}
		c, err := cid.Cast(b[off+n : off+n+36])
		if err != nil {
			return headerLen, header, secs, fmt.Errorf("bad CID at %d: %v", off, err)
		}
		secs = append(secs, c16section{off: off, length: n + int(sl), cid: c, data: b[off+n+36 : off+n+int(sl)]})
		off += n + int(sl)
	}
	return headerLen, header, secs, nil
}

func scenarioC16S(x *runner.X) {
	t := x.Tape
	// the accumulator's per-block buffer size is a preallocation hint: small values put blocks with
	// more objects than the hint within reach of small worlds
	capKnob := t.Pick(5000, 2, 4, 16)
	engineKnobs(map[string]int{"accum.objectCap": capKnob})
	p := world.Params{Epoch: uint64(t.Pick(3, 0, 120)), Salt: 1600 + uint64(t.Intn(4)), NumBlocks: t.Range(1, 9), MaxEntries: t.Range(1, 3), MaxTxPerEntry: t.Range(0, 3), NumAccounts: 8, MaxFrameBytes: t.Pick(200, 60, 1000), SkipProb: 0.4}
	if p.MaxTxPerEntry == 0 {
		p.MaxTxPerEntry = -1
	}
	if t.Bool(0.3) {
		p.EmptyBlockProb = 0.4
	}
	if t.Bool(0.15) {
		p.BigObjects = true
	}
	w := world.Generate(tapeRng{t.SubRand()}, p)
	if t.Bool(0.3) && w.HeaderVersionFirst() {
		// the same header with its two map entries in the other order (legal, not what go-car writes)
		x.Probe("c16s.header_version_first")
	}
	// the model: block groups in file order
	type group struct{ lo, hi int } // byte range in the original CAR
	var groups []group
	start := w.HeaderLen
	for _, o := range w.Objects {
		if o.Kind == world.KindBlock {
			groups = append(groups, group{start, int(o.Offset + o.SectionLen)})
			start = int(o.Offset + o.SectionLen)
		}
	}
	contentEnd := start // the trailing Subset and Epoch sections are not block content
	total := contentEnd - w.HeaderLen
	// the target size: tiny (one block per piece), a block-group boundary +-1, anything, or huge
	const pieceHdr = 59 // placeholder header the command writes: checked against the files below
	var size int64
	switch t.Intn(5) {
	case 0:
		size = int64(t.Range(1, 100))
	case 1:
		g := groups[t.Intn(len(groups))]
		size = int64(pieceHdr + g.hi - w.HeaderLen + t.Intn(3) - 1)
	case 2:
		g := groups[t.Intn(len(groups))]
		size = int64(pieceHdr + g.hi - g.lo + t.Intn(3) - 1)
	case 3:
		size = int64(pieceHdr + t.SubRand().Intn(total+1))
	default:
		size = int64(pieceHdr + total + t.Range(0, 1000))
	}
	disk := t.Bool(0.3)
	x.Digest(w.Describe(), size, disk, capKnob)
	x.Note("world", w.Describe())
	x.Note("target_size", size)
	x.Note("disk_faults", disk)

	dir := x.TempDir()
	carPath := filepath.Join(dir, "in.car")
	outDir := filepath.Join(dir, "out")
	cwd := filepath.Join(dir, "cwd")
	os.MkdirAll(outDir, 0o755)
	os.MkdirAll(cwd, 0o755)
	if err := os.WriteFile(carPath, w.CAR, 0o644); err != nil {
		x.Failf("harness", "write CAR", "%v", err)
		return
	}
	csvPath := filepath.Join(dir, "meta.csv")
	old, _ := os.Getwd()
	if err := os.Chdir(cwd); err != nil { // the command writes its yaml metadata into the working directory
		x.Failf("harness", "chdir", "%v", err)
		return
	}
	defer os.Chdir(old)

	plan := &fault.Plan{P: map[string]float64{}, Budget: 1}
	if disk {
		for _, k := range []string{"disk-write-err", "disk-short-write", "disk-open-err", "disk-read-err", "disk-close-err"} {
			if t.Bool(0.4) {
				plan.P[k] = []float64{0.01, 0.1, 0.5}[t.Intn(3)]
			}
		}
		plan.Skip = t.Intn(len(w.Objects) + 10)
	}
	var runErr error
	info := x.Sim(runner.SimOpts{Phase: "split", PanicOK: disk, Cfg: dsim.Config{MaxSteps: 50000000, MaxSimTime: 100 * time.Hour, NoTimerRace: true}}, func() {
		if disk {
			fault.Install(plan)
		}
		app := &cli.App{Name: "faithful-cli", Commands: []*cli.Command{newCmd_SplitCar()}, ExitErrHandler: func(*cli.Context, error) {}}
		app.Writer, app.ErrWriter = io.Discard, io.Discard
		runErr = app.Run([]string{"faithful-cli", "split-car", "--size", strconv.FormatInt(size, 10), "--epoch", strconv.FormatUint(w.Epoch, 10), "--metadata", csvPath, "--output-dir", outDir, carPath})
		fault.Stop()
		if s := dsim.Active(); s != nil {
			s.Quiesce()
		}
	})
	fired := plan.Fired
	x.SetNontrivial(true)
	if info.Outcome == "panic" {
		// the object accumulator turns an error of its callback into a panic: the command dies loudly
		if fired == 0 {
			x.Failf("panic", "split: panic in "+info.PanicTop, "%s", info.Detail)
		} else {
			x.Probe("c16s.died_after_fault")
		}
		return
	}
	if runErr != nil {
		if fired == 0 {
			x.Failf("oracle", "split-car fails on a well-formed epoch CAR", "size %d: %v; %s", size, runErr, w.Describe())
		} else {
			x.Probe("c16s.error_after_fault")
		}
		return
	}
	if fired > 0 {
		x.Probe("c16s.success_despite_fault")
	}
	// a successful run, with or without faults, must have produced the complete output
	fail := func(sig, f string, a ...any) {
		x.Failf("oracle", sig, "size %d faults %d; %s; %s", size, fired, fmt.Sprintf(f, a...), w.Describe())
	}
	origHdrLen, origHeader, _, err := c16parse(w.CAR)
	if err != nil || origHdrLen != w.HeaderLen {
		x.Failf("harness", "own parser disagrees with the generator", "%v", err)
		return
	}
	// the yaml metadata
	md, err := splitcarfetcher.MetadataFromYaml(filepath.Join(cwd, fmt.Sprintf("epoch-%d-metadata.yaml", w.Epoch)))
	if err != nil || md.CarPieces == nil {
		fail("split-car succeeded without readable metadata", "%v", err)
		return
	}
	if md.CarPieces.OriginalCarHeader != base64.StdEncoding.EncodeToString(origHeader) || int(md.CarPieces.OriginalCarHeaderSize) != w.HeaderLen {
		fail("metadata does not record the original CAR header", "header size %d, original %d", md.CarPieces.OriginalCarHeaderSize, w.HeaderLen)
		return
	}
	// the csv
	cf, err := os.Open(csvPath)
	if err != nil {
		fail("split-car succeeded without the csv metadata", "%v", err)
		return
	}
	rows, err := csv.NewReader(cf).ReadAll()
	cf.Close()
	if err != nil || len(rows) < 1 {
		fail("csv metadata unreadable or empty", "%v rows=%d", err, len(rows))
		return
	}
	rows = rows[1:]
	n := len(md.CarPieces.CarPieces)
	if n == 0 || len(rows) != n {
		fail("piece counts of the two metadata files differ or are zero", "yaml %d csv %d", n, len(rows))
		return
	}
	names, _ := filepath.Glob(filepath.Join(outDir, "*.car"))
	if len(names) != n {
		fail("number of piece files differs from the metadata", "files %d metadata %d", len(names), n)
		return
	}
	x.Note("pieces", n)
	if n > 1 {
		x.Probe("c16s.multi_piece")
	}
	var content bytes.Buffer
	gi := 0 // next block group expected
	var subsetCids []cid.Cid
	for i := 0; i < n; i++ {
		cp := md.CarPieces.CarPieces[i]
		name := filepath.Join(outDir, fmt.Sprintf("epoch-%d-%d.car", w.Epoch, i+1))
		if cp.Name != name || rows[i][0] != filepath.Base(name) {
			fail("piece names in the metadata are not the files written in order", "piece %d: yaml %q csv %q file %q", i, cp.Name, rows[i][0], name)
			return
		}
		b, err := os.ReadFile(name)
		if err != nil {
			fail("a piece named by the metadata is missing", "%v", err)
			return
		}
		hl, _, secs, err := c16parse(b)
		if err != nil {
			fail("a piece is not a well-formed CAR", "piece %d: %v", i, err)
			return
		}
		if int(cp.HeaderSize) != hl {
			fail("recorded header size differs from the piece written", "piece %d: recorded %d, file %d", i, cp.HeaderSize, hl)
			return
		}
		trailer := 1
		if i == n-1 {
			trailer = 2
		}
		if len(secs) < trailer+1 {
			fail("a piece holds no block", "piece %d: %d sections", i, len(secs))
			return
		}
		body := secs[:len(secs)-trailer]
		last := body[len(body)-1]
		clen := last.off + last.length - hl
		if int(cp.ContentSize) != clen {
			fail("recorded content size differs from the block content written", "piece %d: recorded %d, block sections in the file %d (file %d bytes)", i, cp.ContentSize, clen, len(b))
			return
		}
		if fs, err := strconv.ParseUint(rows[i][4], 10, 64); err != nil || int(fs) != len(b) {
			fail("file size recorded in the csv metadata differs from the piece written", "piece %d: recorded %s, file %d (header %d + block content %d + trailing subset/epoch nodes %d)", i, rows[i][4], len(b), hl, clen, len(b)-hl-clen)
			return
		}
		if ps, err := strconv.ParseUint(rows[i][3], 10, 64); err != nil || ps != cp.PaddedSize || ps < uint64(len(b)) {
			fail("padded piece size inconsistent", "piece %d: csv %s yaml %d file %d", i, rows[i][3], cp.PaddedSize, len(b))
			return
		}
		// whole block groups only, each exactly once, in order
		pieceContent := b[hl : hl+clen]
		consumed := 0
		first := gi
		for consumed < clen {
			if gi >= len(groups) {
				fail("pieces hold more block content than the original", "piece %d", i)
				return
			}
			g := groups[gi]
			gl := g.hi - g.lo
			if consumed+gl > clen || !bytes.Equal(pieceContent[consumed:consumed+gl], w.CAR[g.lo:g.hi]) {
				fail("a block and its objects are not stored whole, byte-identical and in order in one piece", "piece %d: block group %d (%d bytes) at content offset %d of %d", i, gi, gl, consumed, clen)
				return
			}
			consumed += gl
			gi++
		}
		if gi-first > 1 && int64(hl+clen) > size {
			fail("a piece with several blocks exceeds the target size", "piece %d: %d blocks, %d bytes, target %d", i, gi-first, hl+clen, size)
			return
		}
		content.Write(pieceContent)
		// the trailer: this piece's Subset node (and the Epoch node in the last piece)
		sn, err := iplddecoders.DecodeSubset(secs[len(body)].data)
		if err != nil {
			fail("a piece does not end with a Subset node", "piece %d: %v", i, err)
			return
		}
		wantBlocks := w.Blocks[first:gi]
		if len(sn.Blocks) != len(wantBlocks) || sn.First != int(wantBlocks[0].Slot) || sn.Last != int(wantBlocks[len(wantBlocks)-1].Slot) {
			fail("a piece's Subset node does not describe the blocks of the piece", "piece %d: first %d last %d blocks %d; model %d..%d, %d blocks", i, sn.First, sn.Last, len(sn.Blocks), wantBlocks[0].Slot, wantBlocks[len(wantBlocks)-1].Slot, len(wantBlocks))
			return
		}
		for j, l := range sn.Blocks {
			if l.String() != wantBlocks[j].Cid.String() {
				fail("a piece's Subset node links a wrong block", "piece %d link %d: %s, model %s", i, j, l.String(), wantBlocks[j].Cid)
				return
			}
		}
		subsetCids = append(subsetCids, secs[len(body)].cid)
		if rows[i][2] != secs[len(body)].cid.String() {
			fail("payload CID in the csv is not the piece's Subset node", "piece %d: %s vs %s", i, rows[i][2], secs[len(body)].cid)
			return
		}
		if i == n-1 {
			en, err := iplddecoders.DecodeEpoch(secs[len(secs)-1].data)
			if err != nil || en.Epoch != int(w.Epoch) || len(en.Subsets) != n {
				fail("the last piece does not end with the Epoch node of all subsets", "%v", err)
				return
			}
			for j, l := range en.Subsets {
				if l.String() != subsetCids[j].String() {
					fail("the Epoch node links a wrong Subset", "subset %d: %s, written %s", j, l.String(), subsetCids[j])
					return
				}
			}
		}
	}
	if gi != len(groups) || !bytes.Equal(content.Bytes(), w.CAR[w.HeaderLen:contentEnd]) {
		fail("the pieces together do not hold every block of the original exactly once", "groups written %d of %d; %d of %d bytes", gi, len(groups), content.Len(), total)
		return
	}
	// the real reader over the written pieces gives back the original bytes, also to several
	// readers at once (the server shares one reader between all requests of an epoch)
	var rdErr error
	var got []byte
	nReaders := t.Range(1, 3)
	type probe struct{ off, n int }
	probes := make([][]probe, nReaders)
	pr := t.SubRand()
	for g := range probes {
		for k := 0; k < 12; k++ {
			off := pr.Intn(contentEnd)
			n := 1 + pr.Intn(mini(contentEnd-off, 600))
			probes[g] = append(probes[g], probe{off, n})
		}
	}
	wrong := ""
	x.Sim(runner.SimOpts{Phase: "read-back", Cfg: dsim.Config{MaxSteps: 50000000, MaxSimTime: 100 * time.Hour, NoTimerRace: true}}, func() {
		rd, err := splitcarfetcher.NewSplitCarReader(md.CarPieces, func(f carlet.CarFile) (splitcarfetcher.ReaderAtCloserSize, error) {
			return splitcarfetcher.NewFileSplitCarReader(f.Name)
		})
		if err != nil {
			rdErr = err
			return
		}
		defer rd.Close()
		var wg simsync.WaitGroup
		for g := 0; g < nReaders; g++ {
			g := g
			wg.Add(1)
			dsim.Go(fmt.Sprintf("reader%d", g), func() {
				defer wg.Done()
				for _, q := range probes[g] {
					buf := make([]byte, q.n)
					n, err := rd.ReadAt(buf, int64(q.off))
					if (err != nil && err != io.EOF) || n != q.n || !bytes.Equal(buf, w.CAR[q.off:q.off+q.n]) {
						if wrong == "" {
							wrong = fmt.Sprintf("ReadAt(%d bytes at %d) with %d concurrent readers: n=%d err=%v, bytes equal: %v", q.n, q.off, nReaders, n, err, bytes.Equal(buf[:n], w.CAR[q.off:q.off+n]))
						}
						return
					}
				}
			})
		}
		wg.Wait()
		got = make([]byte, contentEnd)
		if _, err := rd.ReadAt(got, 0); err != nil && err != io.EOF {
			rdErr = err
		}
		// the true end: the pieces carry nodes of their own behind the content, which are not part
		// of the reassembled CAR
		over := make([]byte, contentEnd+64)
		if n, err := rd.ReadAt(over, 0); n != contentEnd || err != io.EOF {
			wrong = fmt.Sprintf("a read of %d bytes at 0 across the end (%d) returns n=%d err=%v", len(over), contentEnd, n, err)
		}
		if n, err := rd.ReadAt(over[:16], int64(contentEnd)); n != 0 || err != io.EOF {
			wrong = fmt.Sprintf("a read at the end (%d) returns n=%d err=%v, want 0 and EOF", contentEnd, n, err)
		}
		if s := dsim.Active(); s != nil {
			s.Quiesce()
		}
	})
	if wrong != "" {
		fail("a read through the split-CAR reader over the written pieces returns wrong bytes or a wrong end", "%s", wrong)
		return
	}
	if rdErr != nil || !bytes.Equal(got, w.CAR[:contentEnd]) {
		fail("the split-CAR reader over the written pieces does not reproduce the original CAR", "%v; %d bytes", rdErr, len(got))
		return
	}
	x.Probe("c16s.verified")
}
