package main

import (
	"testing"

	"dsim/runner"
)

// TestVerif is the entry point of every scenario hosted in package main; it does nothing
// unless VERIF_MODE is set by the check driver.
func TestVerif(t *testing.T) { runner.Main() }
