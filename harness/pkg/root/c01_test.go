package main

import (
	"bytes"
	"context"
	"fmt"
	"net/http"
	"os"
	"path/filepath"
	"strings"
	"time"

	"dsim"
	"dsim/fault"
	"dsim/runner"
	"dsim/simhttp"

	"github.com/rpcpool/yellowstone-faithful/indexes"
	splitcarfetcher "github.com/rpcpool/yellowstone-faithful/split-car-fetcher"
	"github.com/rpcpool/yellowstone-faithful/zzverif/world"
)

// C01: every archived object, slot and signature resolves through the generated indexes.
func init() { runner.Register("C01", scenarioC01) }

// checkEpochLookups is the full oracle: every object, slot, block time and signature of the model.
func checkEpochLookups(x *runner.X, ep *Epoch, w *world.World, how string) bool {
	ctx := context.Background()
	if ep.carHeaderSize != uint64(w.HeaderLen) || !ep.rootCid.Equals(w.Root) {
		return x.Failf("oracle", "the loaded epoch has a different CAR header size or root than the file", "%s: header %d root %s; model %d %s", how, ep.carHeaderSize, ep.rootCid, w.HeaderLen, w.Root)
	}
	for _, o := range w.Objects {
		oas, err := ep.FindOffsetAndSizeFromCid(ctx, o.Cid)
		if err != nil {
			return x.Failf("oracle", "an object's CID does not resolve to an offset after index generation reported success", "%s: %s %s: %v", how, world.KindName(o.Kind), o.Cid, err)
		}
		if oas.Offset != o.Offset || oas.Size != o.SectionLen {
			return x.Failf("oracle", "an object's CID resolves to the wrong offset or size", "%s: %s %s: got %d/%d, file has it at %d/%d (varint %d bytes)", how, world.KindName(o.Kind), o.Cid, oas.Offset, oas.Size, o.Offset, o.SectionLen, o.VarintLen())
		}
		data, err := ep.GetNodeByCid(ctx, o.Cid)
		if err != nil {
			return x.Failf("oracle", "an object cannot be fetched by its CID after index generation reported success", "%s: %s %s: %v", how, world.KindName(o.Kind), o.Cid, err)
		}
		if !bytes.Equal(data, o.Data) {
			return x.Failf("oracle", "fetching an object by CID returns different bytes", "%s: %s %s: %d bytes, model %d", how, world.KindName(o.Kind), o.Cid, len(data), len(o.Data))
		}
	}
	for _, b := range w.Blocks {
		c, err := ep.FindCidFromSlot(ctx, b.Slot)
		if err != nil || !c.Equals(b.Cid) {
			return x.Failf("oracle", "a block's slot does not resolve to the block's CID", "%s: slot %d: %s %v; model %s", how, b.Slot, c, err, b.Cid)
		}
		bt, err := ep.GetBlocktime(b.Slot)
		if err != nil || bt != b.BlockTime {
			return x.Failf("oracle", "a block's slot does not resolve to its recorded block time", "%s: slot %d: %d %v; model %d", how, b.Slot, bt, err, b.BlockTime)
		}
	}
	for _, tx := range w.Txs {
		c, err := ep.FindCidFromSignature(ctx, tx.Sig())
		if err != nil || !c.Equals(tx.Cid) {
			return x.Failf("oracle", "a transaction's first signature does not resolve to the transaction's CID", "%s: %s: %s %v; model %s", how, tx.Sig(), c, err, tx.Cid)
		}
		if has, err := ep.sigExists.Has(tx.Sig()); err != nil || !has {
			return x.Failf("oracle", "an archived signature is not reported as existing", "%s: %s: %v %v", how, tx.Sig(), has, err)
		}
	}
	return false
}

func scenarioC01(x *runner.X) {
	t := x.Tape
	bucketKnob := t.Pick(10000, 4, 16, 64)
	engineKnobs(map[string]int{"compactindex.targetEntriesPerBucket": bucketKnob})
	epoch := uint64(t.Pick(1, 0, 2, 77, 600, 9999))
	p := drawWorldParams(t, epoch, uint64(3000+t.Intn(50)), false)
	if t.Bool(0.2) {
		p.SplitTxData = true
	}
	if x.Tier == "thorough" && t.Bool(0.02) {
		// item counts around the real entries-per-bucket boundary
		bucketKnob = 10000
		engineKnobs(nil)
		p.NumBlocks = t.Pick(900, 1100)
		p.MaxEntries, p.MaxTxPerEntry = 3, 3
	}
	w := world.Generate(tapeRng{t.SubRand()}, p)
	if t.Bool(0.35) {
		// sections of exactly the lengths where the length prefix of a CAR section grows
		var lens []int
		for _, l := range []int{127, 128, 129, 130, 16383, 16384, 16385, 16386, 16387} {
			if t.Bool(0.6) {
				lens = append(lens, l)
			}
		}
		if n := w.InsertBoundaryFrames(tapeRng{t.SubRand()}, lens); n > 0 {
			x.Probe("boundary_length_sections")
		}
	}
	disk := t.Bool(0.45)
	remote := t.Bool(0.3)
	if len(w.Objects) > 8000 {
		// the range cache walks its whole entry map on every insertion: tens of thousands of objects
		// behind it cost minutes per run in the simulator; C17 is the check of the cache
		remote = false
	}
	x.Digest(w.Describe(), bucketKnob, disk, remote)
	x.Note("world", w.Describe())
	x.Note("entries_per_bucket_knob", bucketKnob)
	x.Note("disk_faults", disk)
	x.Note("car_served_remotely", remote)

	dir := x.TempDir()
	carPath := filepath.Join(dir, fmt.Sprintf("epoch-%d.car", w.Epoch))
	indexDir := filepath.Join(dir, "indexes")
	tmpDir := filepath.Join(dir, "tmp")
	os.MkdirAll(indexDir, 0o755)
	os.MkdirAll(tmpDir, 0o755)
	if err := os.WriteFile(carPath, w.CAR, 0o644); err != nil {
		x.Failf("harness", "write CAR", "%v", err)
		return
	}
	muteProgress()
	var paths *IndexPaths
	var numItems uint64
	var buildErr error
	plan := &fault.Plan{P: map[string]float64{}, Budget: t.Range(1, 2)}
	if disk {
		for _, k := range []string{"disk-write-err", "disk-short-write", "disk-open-err", "disk-seek-err", "disk-read-err", "disk-sync-err", "disk-close-err", "disk-mkdir-err"} {
			if t.Bool(0.35) {
				plan.P[k] = []float64{0.005, 0.03, 0.2}[t.Intn(3)]
			}
		}
	}
	if disk && t.Bool(0.6) {
		// place the fault late: the sealing phase comes after one or two writes per object
		plan.Skip = t.Intn(4*len(w.Objects) + 40)
		for k := range plan.P {
			plan.P[k] = 0.3
		}
	}
	x.Sim(runner.SimOpts{Phase: "index-all", FaultsFlowing: false, Cfg: dsim.Config{MaxSteps: 80000000, MaxSimTime: 100 * time.Hour, StmtYields: true, NoTimerRace: true}}, func() {
		if disk {
			fault.Install(plan)
		}
		paths, numItems, buildErr = createAllIndexes(context.Background(), indexes.NetworkMainnet, tmpDir, carPath, indexDir)
		fault.Stop()
	})
	if x.Failed() {
		return
	}
	if buildErr != nil {
		if disk && plan.Fired > 0 {
			x.Probe("c01.build-failed-under-disk-fault")
			return
		}
		x.Failf("oracle", "index generation failed on a well-formed epoch CAR", "%s: %v", w.Describe(), buildErr)
		return
	}
	if numItems != uint64(len(w.Objects)) {
		x.Failf("oracle", "index generation counted a different number of objects than the CAR holds", "%d vs %d", numItems, len(w.Objects))
		return
	}
	if disk && plan.Fired > 0 {
		x.Probe("c01.success-reported-despite-disk-fault")
	}
	// index generation reported success: from here on the full oracle applies, faults or not
	var sb strings.Builder
	carURI := carPath
	if remote {
		carURI = "http://remote.sim/" + filepath.Base(carPath)
	}
	fmt.Fprintf(&sb, "epoch: %d\nversion: 1\ndata:\n  car:\n    uri: '%s'\nindexes:\n", w.Epoch, carURI)
	sb.WriteString(paths.String())
	if w.Epoch == 0 {
		fmt.Fprintf(&sb, "genesis:\n  uri: '%s'\n", worldGenesisPath)
	}
	cfgPath := filepath.Join(dir, fmt.Sprintf("epoch-%d.yml", w.Epoch))
	os.WriteFile(cfgPath, []byte(sb.String()), 0o644)
	x.Sim(runner.SimOpts{Phase: "lookups", Cfg: dsim.Config{MaxSteps: 80000000, MaxSimTime: 100 * time.Hour, NoTimerRace: true}}, func() {
		s := dsim.Active()
		how := "local CAR"
		if remote {
			how = "CAR behind the HTTP ReaderAt"
			store := simhttp.NewStore()
			store.Put("/"+filepath.Base(carPath), w.CAR)
			oldT := http.DefaultTransport
			http.DefaultTransport = store
			splitcarfetcher.VerifTransport = store
			defer func() { http.DefaultTransport = oldT; splitcarfetcher.VerifTransport = nil }()
		}
		ep, err := loadEpoch(cfgPath)
		if err != nil {
			if paths != nil {
				// which index is it? name the first missing/unreadable file
				for _, f := range []string{paths.CidToOffsetAndSize, paths.SlotToCid, paths.SignatureToCid, paths.SignatureExists, paths.SlotToBlocktime} {
					if st, e := os.Stat(f); e != nil || st.Size() == 0 {
						x.Failf("oracle", "index generation reported success but an index file is missing or empty", "%s: %v", filepath.Base(f), e)
						return
					}
				}
			}
			x.Failf("oracle", "index generation reported success but the epoch cannot be loaded from its indexes", "%s: %v", how, err)
			return
		}
		defer ep.Close()
		checkEpochLookups(x, ep, w, how)
		s.Quiesce()
	})
	x.SetNontrivial(true)
}
