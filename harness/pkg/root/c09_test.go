package main

import (
	"bytes"
	"fmt"
	"sort"
	"time"

	"dsim"
	"dsim/runner"
	"dsim/simsync"

	"github.com/anishathalye/porcupine"
	"github.com/rpcpool/yellowstone-faithful/zzverif/world"
	"github.com/valyala/fasthttp"
)

// C09: queries and epoch reloads never deadlock and see a consistent epoch set.
func init() { runner.Register("C09", scenarioC09) }

const c09Epochs = 5 // universe: epochs 40..44

func c09mk(id int) (world.Params, uint64) {
	return world.Params{Epoch: uint64(40 + id), Salt: uint64(900 + id), NumBlocks: 3, MaxEntries: 2, MaxTxPerEntry: 2, NumAccounts: 8, MaxFrameBytes: 400}, uint64(7700 + id)
}

type c09setOp struct {
	kind  string // add remove removepath replaceoradd replace list has count
	epoch uint64
}
type c09setOut struct {
	ok   bool
	list []uint64
	n    int
}

var c09model = porcupine.Model{
	Init: func() interface{} { return uint32(0) },
	Step: func(state, input, output interface{}) (bool, interface{}) {
		s := state.(uint32)
		in := input.(c09setOp)
		out := output.(c09setOut)
		bit := uint32(1) << (in.epoch - 40)
		switch in.kind {
		case "add":
			if s&bit != 0 {
				return !out.ok, s
			}
			return out.ok, s | bit
		case "remove", "removepath":
			if s&bit == 0 {
				return !out.ok, s
			}
			return out.ok, s &^ bit
		case "replaceoradd":
			return out.ok, s | bit
		case "replace":
			if s&bit == 0 {
				return !out.ok, s
			}
			return out.ok, s
		case "has":
			return out.ok == (s&bit != 0), s
		case "count":
			n := 0
			for i := 0; i < 16; i++ {
				if s&(1<<uint(i)) != 0 {
					n++
				}
			}
			return out.n == n, s
		case "list":
			var want []uint64
			for i := 15; i >= 0; i-- {
				if s&(1<<uint(i)) != 0 {
					want = append(want, uint64(40+i))
				}
			}
			return fmt.Sprint(want) == fmt.Sprint(out.list), s
		}
		return false, s
	},
	Equal: func(a, b interface{}) bool { return a.(uint32) == b.(uint32) },
	DescribeOperation: func(input, output interface{}) string {
		in := input.(c09setOp)
		out := output.(c09setOut)
		return fmt.Sprintf("%s(%d) -> ok=%v list=%v n=%d", in.kind, in.epoch, out.ok, out.list, out.n)
	},
}

// idle answers: request key -> response body on an idle server with the same world
var c09idle = map[string][]byte{}

func scenarioC09(x *runner.X) {
	t := x.Tape
	engineKnobs(nil)
	worlds := make([]*pooledWorld, c09Epochs)
	for i := range worlds {
		p, err := getPooledWorld("c09", i, c09mk, true)
		if err != nil {
			x.Failf("harness", "cannot build the pooled world", "%v", err)
			return
		}
		worlds[i] = p
	}
	nStable := t.Range(1, 2) // epochs 40.. that stay loaded for the whole run
	nClients := t.Range(2, 5)
	nOps := t.Range(1, 3)
	asyncLoad := t.Bool(0.3)
	// idle responses for the stable epochs (computed once per process, outside the simulation)
	type req struct {
		method string
		params any
		key    string
	}
	var stableReqs []req
	for i := 0; i < nStable; i++ {
		w := worlds[i].w
		for _, b := range w.Blocks {
			stableReqs = append(stableReqs, req{"getBlock", []any{b.Slot, map[string]any{"encoding": "base64", "maxSupportedTransactionVersion": 0}}, fmt.Sprintf("getBlock/%d", b.Slot)})
			stableReqs = append(stableReqs, req{"getBlockTime", []any{b.Slot}, fmt.Sprintf("getBlockTime/%d", b.Slot)})
		}
		for _, tx := range w.Txs {
			stableReqs = append(stableReqs, req{"getTransaction", []any{tx.Sigs[0].String(), map[string]any{"encoding": "base64", "maxSupportedTransactionVersion": 0}}, "getTransaction/" + tx.Sigs[0].String()})
		}
	}
	for i := 0; i < nStable; i++ {
		if _, ok := c09idle[fmt.Sprintf("done/%d/%d", i, nStable)]; ok {
			continue
		}
	}
	idleKey := fmt.Sprintf("idle/%d", nStable)
	if _, ok := c09idle[idleKey]; !ok {
		var cfgs []string
		for i := 0; i < nStable; i++ {
			cfgs = append(cfgs, worlds[i].cfg)
		}
		// idle server with all five epochs loaded: stable-epoch answers do not depend on the others
		for i := nStable; i < c09Epochs; i++ {
			cfgs = append(cfgs, worlds[i].cfg)
		}
		var ierr error
		info := runQuiet(func() {
			multi, handler, err := newWorldServer(cfgs...)
			if err != nil {
				ierr = err
				return
			}
			for _, r := range stableReqs {
				_, body := jsonRPC(handler, r.method, r.params)
				c09idle[fmt.Sprintf("%d/%s", nStable, r.key)] = body
			}
			multi.Close()
		})
		if ierr != nil || info.Outcome != "ok" {
			x.Failf("harness", "cannot compute the idle answers", "%v %s %s", ierr, info.Outcome, info.Detail)
			return
		}
		c09idle[idleKey] = []byte{1}
	}

	type cop struct {
		kind int
		arg  int
	}
	clientOps := make([][]cop, nClients)
	desc := ""
	for c := range clientOps {
		n := t.Range(1, 6)
		for i := 0; i < n; i++ {
			o := cop{kind: t.Intn(12), arg: t.Intn(1 << 16)}
			clientOps[c] = append(clientOps[c], o)
			desc += fmt.Sprintf("c%d:%d ", c, o.kind)
		}
	}
	type oop struct {
		kind  string
		epoch int
	}
	opOps := make([][]oop, nOps)
	kinds := []string{"add", "remove", "removepath", "replaceoradd", "replace"}
	for o := range opOps {
		n := t.Range(1, 5)
		for i := 0; i < n; i++ {
			op := oop{kind: kinds[t.Intn(len(kinds))], epoch: nStable + t.Intn(c09Epochs-nStable)}
			opOps[o] = append(opOps[o], op)
			desc += fmt.Sprintf("o%d:%s(%d) ", o, op.kind, 40+op.epoch)
		}
	}
	initialVolatile := t.Intn(1 << uint(c09Epochs-nStable))
	x.Digest(nStable, nClients, nOps, asyncLoad, desc, initialVolatile)
	x.Note("stable_epochs", nStable)
	x.Note("history", desc)
	x.Note("async_startup_load", asyncLoad)

	var history []porcupine.Operation
	var seq int64
	stamp := func() int64 { seq++; return seq }
	record := func(client int, in c09setOp, call int64, out c09setOut) {
		history = append(history, porcupine.Operation{ClientId: client, Input: in, Call: call, Output: out, Return: stamp()})
	}
	x.Sim(runner.SimOpts{Phase: "multiepoch", Cfg: dsim.Config{MaxSteps: 2000000, MaxSimTime: time.Hour}}, func() {
		s := dsim.Active()
		multi := NewMultiEpoch(&Options{EpochSearchConcurrency: t.Pick(1, 2, 4)})
		handler := newMultiEpochHandler(multi, nil)
		srvLoad := newServerLoader()
		load := func(i int) *Epoch {
			ep, err := srvLoad(worlds[i].cfg)
			if err != nil {
				s.Fail("harness", "loadEpoch failed", err.Error())
			}
			return ep
		}
		// start-up load (the stable epochs are always loaded before clients start)
		for i := 0; i < nStable; i++ {
			call := stamp()
			err := multi.AddEpoch(uint64(40+i), load(i))
			record(200+i, c09setOp{"add", uint64(40 + i)}, call, c09setOut{ok: err == nil})
			if err != nil {
				s.Fail("oracle", "AddEpoch failed at start-up", err.Error())
			}
		}
		var loadWg simsync.WaitGroup
		for i := nStable; i < c09Epochs; i++ {
			if initialVolatile&(1<<uint(i-nStable)) == 0 {
				continue
			}
			i := i
			doLoad := func() {
				call := stamp()
				err := multi.AddEpoch(uint64(40+i), load(i))
				record(100+i, c09setOp{"add", uint64(40 + i)}, call, c09setOut{ok: err == nil})
			}
			if asyncLoad {
				loadWg.Add(1)
				dsim.Go(fmt.Sprintf("loader%d", i), func() { defer loadWg.Done(); doLoad() })
			} else {
				doLoad()
			}
		}
		var wg simsync.WaitGroup
		for c := range clientOps {
			c := c
			wg.Add(1)
			dsim.Go(fmt.Sprintf("client%d", c), func() {
				defer wg.Done()
				for _, o := range clientOps[c] {
					switch o.kind {
					case 0, 1, 2: // a query addressed to a stable epoch: must behave as on an idle server
						r := stableReqs[o.arg%len(stableReqs)]
						_, body := jsonRPC(handler, r.method, r.params)
						if want := c09idle[fmt.Sprintf("%d/%s", nStable, r.key)]; !bytes.Equal(body, want) {
							s.Fail("oracle", "a query to an epoch that stays loaded differs from the idle answer: "+r.method, fmt.Sprintf("%s\n got  %s\n want %s", r.key, clipB(body), clipB(want)))
						}
					case 3:
						st, body := jsonRPC(handler, "getSlot", []any{})
						if st == 0 || len(body) == 0 {
							s.Fail("oracle", "getSlot produced no response", "")
						}
					case 4:
						st, body := jsonRPC(handler, "getFirstAvailableBlock", []any{})
						if st == 0 || len(body) == 0 {
							s.Fail("oracle", "getFirstAvailableBlock produced no response", "")
						}
						// the oldest epoch is a stable one: the answer is fixed
						want := fmt.Sprintf(`"result":%d`, worlds[0].w.Blocks[0].Slot)
						if !bytes.Contains(body, []byte(want)) {
							s.Fail("oracle", "getFirstAvailableBlock differs from the idle answer", fmt.Sprintf("got %s want %s", clipB(body), want))
						}
					case 5:
						jsonRPC(handler, "getVersion", []any{})
					case 6:
						w := worlds[o.arg%nStable].w
						addr := w.Addresses[o.arg%len(w.Addresses)]
						st, body := jsonRPC(handler, "getSignaturesForAddress", []any{addr.String(), map[string]any{"limit": 5}})
						if st == 0 || len(body) == 0 {
							s.Fail("oracle", "getSignaturesForAddress produced no response", "")
						}
					case 7:
						call := stamp()
						l := multi.GetEpochNumbers()
						record(c, c09setOp{kind: "list", epoch: 40}, call, c09setOut{list: l})
						if !sort.SliceIsSorted(l, func(i, j int) bool { return l[i] > l[j] }) {
							s.Fail("oracle", "the list of available epochs is not sorted newest first", fmt.Sprint(l))
						}
						for i := 1; i < len(l); i++ {
							if l[i] == l[i-1] {
								s.Fail("oracle", "the list of available epochs contains a duplicate", fmt.Sprint(l))
							}
						}
					case 8:
						e := uint64(40 + o.arg%c09Epochs)
						call := stamp()
						ok := multi.HasEpoch(e)
						record(c, c09setOp{kind: "has", epoch: e}, call, c09setOut{ok: ok})
					case 9:
						call := stamp()
						n := multi.CountEpochs()
						record(c, c09setOp{kind: "count", epoch: 40}, call, c09setOut{n: n})
					case 10:
						if ep, err := multi.GetMostRecentAvailableEpoch(); err != nil || ep == nil {
							s.Fail("oracle", "GetMostRecentAvailableEpoch fails although epochs are loaded", fmt.Sprint(err))
						}
						multi.HasEpochWithSameHashAsFile(worlds[o.arg%c09Epochs].cfg)
					case 11:
						if ep, err := multi.GetOldestAvailableEpoch(); err != nil || ep == nil || ep.Epoch() != 40 {
							s.Fail("oracle", "GetOldestAvailableEpoch is not the oldest loaded epoch", fmt.Sprint(err))
						}
						multi.GetEpoch(uint64(40 + o.arg%c09Epochs))
					}
				}
			})
		}
		for o := range opOps {
			o := o
			wg.Add(1)
			dsim.Go(fmt.Sprintf("operator%d", o), func() {
				defer wg.Done()
				for _, op := range opOps[o] {
					e := uint64(40 + op.epoch)
					var err error
					var call int64
					switch op.kind {
					case "add":
						ep := load(op.epoch)
						call = stamp()
						err = multi.AddEpoch(e, ep)
					case "remove":
						call = stamp()
						err = multi.RemoveEpoch(e)
					case "removepath":
						call = stamp()
						_, err = multi.RemoveEpochByConfigFilepath(worlds[op.epoch].cfg)
					case "replaceoradd":
						ep := load(op.epoch)
						call = stamp()
						err = multi.ReplaceOrAddEpoch(e, ep)
					case "replace":
						ep := load(op.epoch)
						call = stamp()
						err = multi.ReplaceEpoch(e, ep)
					}
					record(50+o, c09setOp{kind: op.kind, epoch: e}, call, c09setOut{ok: err == nil})
				}
			})
		}
		wg.Wait()
		loadWg.Wait()
		// final state must be readable
		call := stamp()
		l := multi.GetEpochNumbers()
		record(99, c09setOp{kind: "list", epoch: 40}, call, c09setOut{list: l})
		// ... and served: once the operators are done, every loaded epoch (also one that was hot
		// loaded or replaced) answers for its own transactions and address histories, and an epoch
		// that is gone does not. Per-request caches that survived the changes show up here.
		inFinal := map[uint64]bool{}
		for _, e := range l {
			inFinal[e] = true
		}
		for i := 0; i < c09Epochs && !x.Failed(); i++ {
			w := worlds[i].w
			tx := w.Txs[len(w.Txs)/2]
			_, body := jsonRPC(handler, "getTransaction", []any{tx.Sig().String(), map[string]any{"encoding": "base64", "maxSupportedTransactionVersion": 0}})
			served := bytes.Contains(body, []byte(`"slot":`+fmt.Sprint(tx.Slot))) && !bytes.Contains(body, []byte(`"error"`))
			if inFinal[w.Epoch] && !served {
				x.Failf("oracle", "after the epoch set settled, a loaded epoch does not serve its transactions", "epoch %d (final set %v): getTransaction(%s) -> %s", w.Epoch, l, tx.Sig(), clipB(body))
			}
			if !inFinal[w.Epoch] && served {
				x.Failf("oracle", "after the epoch set settled, a removed epoch still serves transactions", "epoch %d (final set %v)", w.Epoch, l)
			}
			if inFinal[w.Epoch] {
				a := w.Addresses[len(w.Addresses)/2]
				_, body := jsonRPC(handler, "getSignaturesForAddress", []any{a.String(), map[string]any{"limit": 1000}})
				for _, htx := range w.ByAddress[a] {
					if !bytes.Contains(body, []byte(htx.Sig().String())) {
						x.Failf("oracle", "after the epoch set settled, an address history misses the transactions of a loaded epoch", "epoch %d (final set %v): getSignaturesForAddress(%s) lacks %s: %s", w.Epoch, l, a, htx.Sig(), clipB(body))
						break
					}
				}
			}
		}
	})
	if x.Failed() {
		return
	}
	res := porcupine.CheckOperationsTimeout(c09model, history, 20*time.Second)
	switch res {
	case porcupine.Illegal:
		var sb bytes.Buffer
		for _, h := range history {
			fmt.Fprintf(&sb, "client %d [%d,%d] %s\n", h.ClientId, h.Call, h.Return, c09model.DescribeOperation(h.Input, h.Output))
		}
		x.Failf("oracle", "the history of epoch-set operations is not linearizable", "%s", sb.String())
	case porcupine.Unknown:
		x.Inconclusive("porcupine timed out")
	}
	x.Probe(fmt.Sprintf("c09.history-len-%d", (len(history)/10)*10))
	_ = fasthttp.StatusOK
}

func clipB(b []byte) string {
	if len(b) > 300 {
		return string(b[:300]) + "..."
	}
	return string(b)
}
