package gsfa

import (
	"context"
	"fmt"
	"io"
	"os"
	"path/filepath"
	"sort"
	"strings"
	"testing"
	"time"

	"dsim"
	"dsim/runner"
	"dsim/simtime"

	"github.com/gagliardetto/solana-go"
	"github.com/ipfs/go-cid"
	"github.com/rpcpool/yellowstone-faithful/gsfa/linkedlog"
	"github.com/rpcpool/yellowstone-faithful/indexes"
	"github.com/rpcpool/yellowstone-faithful/indexmeta"
	"github.com/rpcpool/yellowstone-faithful/tooling"
	"k8s.io/klog/v2"
)

func TestVerif(t *testing.T) { runner.Main() }

func init() {
	runner.Register("C06", scenarioC06)
	klog.LogToStderr(false)
	klog.SetOutput(io.Discard)
}

type c06entry struct {
	off, size, slot  uint64
	meta, succ, vote bool
}

func (e c06entry) String() string {
	return fmt.Sprintf("{off=%d size=%d slot=%d f=%v%v%v}", e.off, e.size, e.slot, b2i(e.meta), b2i(e.succ), b2i(e.vote))
}
func b2i(b bool) int {
	if b {
		return 1
	}
	return 0
}

type c06push struct {
	e     c06entry
	keys  []int // indices into the address universe (may contain duplicates)
	pause int   // 0 none, 1 yield, 2 sleep 1.5s (lets the flusher's timer fire)
}

var c06root = cid.MustParse("bafyreifljyxj55v6jycjf2y7tdibwwwqx75eqf5mn2thip2sswyc536zqq")

func c06key(i int) solana.PublicKey {
	var pk solana.PublicKey
	for j := range pk {
		pk[j] = byte(i*37 + j*11 + 1)
	}
	pk[0] = byte(i)
	pk[1] = byte(i >> 8)
	pk[2] = byte(i >> 16)
	return pk
}

// c06boundaryBatch builds entries whose serialized batch (zstd(payload)+9) has exactly the wanted
// length, using the same compressor the writer uses. Returns nil if the search fails.
func c06boundaryBatch(r *dsim.Rand, wantPayloadLen int, startOff uint64) []c06entry {
	target := wantPayloadLen - 9
	var es []c06entry
	enc := func(es []c06entry) int {
		var buf []byte
		for i := len(es) - 1; i >= 0; i-- { // the writer reverses the batch before encoding
			o := linkedlog.OffsetAndSizeAndSlot{Offset: es[i].off, Size: es[i].size, Slot: es[i].slot}
			o.SetHasMeta(es[i].meta)
			o.SetIsSuccess(es[i].succ)
			o.SetIsVote(es[i].vote)
			buf = append(buf, o.Bytes()...)
		}
		c, err := tooling.CompressZstd(buf)
		if err != nil {
			return -1
		}
		return len(c)
	}
	big := target > 1000
	mk := func() c06entry {
		e := c06entry{off: startOff + uint64(len(es)), size: 1 + r.Uint64()%1000, slot: 1000 + uint64(len(es))}
		if big {
			e.off = r.Uint64() | 1<<63
			e.size = r.Uint64() | 1<<63
			e.slot = 1 + (r.Uint64()|1<<63)%(1<<63)*2 + 1
		} else {
			e.off = r.Uint64() >> uint(r.Intn(40))
			e.size = r.Uint64() >> uint(20+r.Intn(40))
		}
		return e
	}
	for tries := 0; tries < 4000; tries++ {
		n := enc(es)
		if n == target {
			return es
		}
		if n < target {
			es = append(es, mk())
			continue
		}
		// too long: perturb the last entry to something shorter
		if len(es) == 0 {
			return nil
		}
		last := &es[len(es)-1]
		last.off >>= uint(1 + r.Intn(16))
		last.size >>= uint(1 + r.Intn(16))
		if last.off == 0 && last.size == 0 {
			es = es[:len(es)-1]
		}
	}
	return nil
}

func scenarioC06(x *runner.X) {
	t := x.Tape
	real := x.RealOnly || t.Bool(0.04)
	boundary := 0
	if real && t.Bool(0.5) {
		boundary = t.Pick(127, 128, 126, 129, 16383, 16384, 16382, 16385)
	}
	knobs := map[string]int{"gsfa.mapCap": 1 << 10, "gsfa.mapCap2": 1 << 10}
	B := 1000
	flushPop := 100000
	if !real {
		B = t.Pick(2, 3, 4, 8)
		knobs["gsfa.itemsPerBatch"] = B
		knobs["gsfa.chanCap"] = t.Pick(0, 1, 2, 50)
		knobs["gsfa.tmpBuf"] = t.Pick(1, 2, 4, 256)
		flushPop = t.Pick(3, 8, 100000)
		knobs["gsfa.flushPopulation"] = flushPop
		knobs["gsfa.flushMinValues"] = t.Pick(2, 3, 100)
		knobs["gsfa.popRank"] = 10000
		if t.Intn(40) == 39 {
			// a rank list this small lets purge() evict a key whose full batch is still parked; unreachable at the
			// real size (needs 10 001 distinct flush counts), so whatever it shows is knob-only by construction
			knobs["gsfa.popRank"] = t.Pick(1, 2)
		}
	}
	nAddr := t.Range(1, 6)
	if flushPop < 100 && t.Bool(0.5) {
		nAddr = flushPop + t.Range(1, 4) // enough distinct addresses for the periodic partial flush
	}
	// focus address 0 gets k*B+delta entries
	k := t.Range(0, 3)
	delta := t.Pick(0, 1, -1, 2)
	focus := k*B + delta
	if focus < 0 {
		focus = 0
	}
	if real {
		focus = t.Pick(1, 999, 1000, 1001, 1999, 2000, 2001, 5000, 3000)
	}
	var pushes []c06push
	nextOff := uint64(1)
	slot := uint64(t.Range(0, 3)) * 499
	mkEntry := func() c06entry {
		e := c06entry{off: nextOff, size: uint64(1 + t.Intn(3)), slot: slot, meta: t.Bool(0.5), succ: t.Bool(0.5), vote: t.Bool(0.3)}
		nextOff += 1 + uint64(t.Intn(3))
		switch t.Intn(6) {
		case 0:
			slot++
		case 1:
			slot = (slot/500 + 1) * 500 // lands on the periodic-flush trigger
		}
		return e
	}
	if boundary != 0 {
		es := c06boundaryBatch(t.SubRand(), boundary, 1)
		if es == nil {
			x.Inconclusive("boundary batch search failed")
			boundary = 0
		} else {
			for _, e := range es {
				pushes = append(pushes, c06push{e: e, keys: []int{0}})
			}
			x.Probe(fmt.Sprintf("c06.batch-record-len-%d", boundary))
		}
	}
	// parked: an address fills exactly k batches, which the background writer parks, then gets a
	// few more entries; enough other addresses are pending for the periodic partial flush, and a
	// push lands on its trigger slot. The partial flush must leave that address alone, otherwise
	// its newer entries are written ahead of the parked batches.
	parked := boundary == 0 && t.Bool(0.15)
	if parked {
		pop := 100000 // the real population threshold: 100 001 pending addresses, a few seconds per run
		if !real {
			pop = t.Pick(3, 8)
			knobs["gsfa.flushPopulation"] = pop
			knobs["gsfa.flushMinValues"] = 100
			knobs["gsfa.tmpBuf"] = 256
			knobs["gsfa.chanCap"] = 50
			knobs["gsfa.popRank"] = 10000
		}
		nAddr = pop + t.Range(2, 5)
		kk := t.Range(1, 2)
		for i := 0; i < kk*B; i++ {
			pushes = append(pushes, c06push{e: mkEntry(), keys: []int{0}})
		}
		for i := t.Range(1, mini(B-1, 99)); i > 0; i-- {
			pushes = append(pushes, c06push{e: mkEntry(), keys: []int{0}, pause: t.Pick(0, 1)})
		}
		for a := 1; a < nAddr; a++ {
			pushes = append(pushes, c06push{e: mkEntry(), keys: []int{a}})
		}
		slot = (slot/500 + 1) * 500
		pushes = append(pushes, c06push{e: mkEntry(), keys: []int{1 + t.Intn(nAddr-1)}, pause: t.Pick(0, 1)})
		for i := t.Range(0, B+1); i > 0; i-- {
			pushes = append(pushes, c06push{e: mkEntry(), keys: []int{t.Pick(0, 0, 1)}})
		}
		x.Probe("c06.parked-batch-then-partial-flush")
	}
	// burst (real constants only): a few hundred addresses named by every push, so that all of them
	// complete a batch in the same push, twice: more full batches than the hand-off queue (50) and
	// the writer's parking space (256) hold, with older batches of the same addresses still parked
	burst := real && !parked && boundary == 0 && t.Bool(0.3)
	if burst {
		nAddr = t.Range(310, 330)
		per := 2*B + t.Range(0, 60)
		for i := 0; i < per; i++ {
			p := c06push{e: mkEntry()}
			for a := 0; a < nAddr; a++ {
				p.keys = append(p.keys, a)
			}
			if t.Bool(0.001) {
				p.pause = 1
			}
			pushes = append(pushes, p)
		}
		x.Probe("c06.burst-of-full-batches")
	}
	manyBatches := !parked && !burst && boundary == 0 && t.Bool(0.25)
	if manyBatches {
		// every push names all of 7..16 addresses, each address ends with 2..3 full batches and a
		// remainder: more than a dozen batches of few addresses are in flight at once
		nAddr = t.Range(7, 16)
		per := 2*B + t.Range(1, B)
		if real {
			per = t.Range(2001, 2600)
		}
		for i := 0; i < per; i++ {
			p := c06push{e: mkEntry()}
			for a := 0; a < nAddr; a++ {
				p.keys = append(p.keys, a)
			}
			if !real {
				p.pause = t.Pick(0, 0, 0, 0, 1)
			}
			pushes = append(pushes, p)
		}
		x.Probe("c06.many-batches")
	}
	if boundary == 0 && !manyBatches && !parked && !burst {
		others := t.Range(0, 3*B)
		if real {
			others = t.Range(0, 50)
		}
		total := focus + others
		left := focus
		for i := 0; i < total; i++ {
			p := c06push{e: mkEntry()}
			takeFocus := left > 0 && (total-i <= left || t.Bool(0.7))
			if takeFocus {
				p.keys = append(p.keys, 0)
				left--
			}
			if !takeFocus || t.Bool(0.3) {
				nk := t.Range(1, 3)
				for j := 0; j < nk; j++ {
					a := t.Intn(nAddr)
					if a == 0 {
						if nAddr == 1 {
							continue
						}
						a = 1 + t.Intn(nAddr-1)
					}
					p.keys = append(p.keys, a)
					if t.Bool(0.1) {
						p.keys = append(p.keys, a) // duplicate key inside one push
					}
				}
			}
			if len(p.keys) == 0 {
				p.keys = []int{0}
				if left > 0 {
					left--
				}
			}
			if !real {
				p.pause = t.Pick(0, 0, 0, 1, 2)
			} else if t.Bool(0.002) {
				p.pause = 2
			}
			pushes = append(pushes, p)
		}
	}
	// model
	model := map[int][]c06entry{}
	for _, p := range pushes {
		seen := map[int]bool{}
		for _, a := range p.keys {
			if !seen[a] {
				seen[a] = true
				model[a] = append(model[a], p.e)
			}
		}
	}
	var counts []string
	for a := 0; a < nAddr && a < 8; a++ {
		counts = append(counts, fmt.Sprintf("a%d=%d", a, len(model[a])))
	}
	x.Digest(fmt.Sprint(knobs), nAddr, len(pushes), strings.Join(counts, ","), boundary, real)
	x.Note("knobs", knobs)
	x.Note("real_constants", real)
	x.Note("pushes", len(pushes))
	x.Note("per_address_counts", strings.Join(counts, ","))
	x.Note("boundary_record_len", boundary)
	if real {
		x.Probe("c06.real-constants-run")
	}
	dsim.SetKnobs(knobs)

	dir := filepath.Join(x.TempDir(), "gsfa")
	tmp := filepath.Join(x.TempDir(), "tmp")
	os.MkdirAll(tmp, 0o755)
	var closeErr error
	var closeTook time.Duration
	closed := false
	x.Sim(runner.SimOpts{Phase: "gsfa-write", Cfg: dsim.Config{MaxSteps: 3000000, MaxSimTime: 10 * time.Hour}}, func() {
		s := dsim.Active()
		w, err := NewGsfaWriter(dir, indexmeta.Meta{}, 7, c06root, indexes.NetworkMainnet, tmp)
		if err != nil {
			s.Fail("harness", "NewGsfaWriter failed", err.Error())
		}
		for _, p := range pushes {
			keys := make(solana.PublicKeySlice, 0, len(p.keys))
			for _, a := range p.keys {
				keys = append(keys, c06key(a))
			}
			if err := w.Push(p.e.off, p.e.size, p.e.slot, keys, p.e.meta, p.e.succ, p.e.vote); err != nil {
				s.Fail("oracle", "Push returned an error", err.Error())
			}
			switch p.pause {
			case 1:
				s.Yield("between-pushes")
			case 2:
				simtime.Sleep(1500 * time.Millisecond)
			}
		}
		t0 := s.Elapsed()
		closeErr = w.Close()
		closeTook = s.Elapsed() - t0
		closed = true
	})
	if x.Failed() {
		return
	}
	if !closed {
		x.Failf("liveness", "Close did not return", "")
		return
	}
	if closeErr != nil {
		x.Failf("oracle", "Close returned an error", "%v", closeErr)
		return
	}
	if closeTook > 10*time.Second {
		x.Failf("liveness", "Close took more than 10 simulated seconds", "%v", closeTook)
		return
	}
	rd, err := NewGsfaReader(dir)
	if err != nil {
		x.Failf("oracle", "the closed index cannot be opened", "%v", err)
		return
	}
	defer rd.Close()
	addrs := make([]int, 0, len(model))
	for a := range model {
		addrs = append(addrs, a)
	}
	sort.Ints(addrs)
	for i, a := range addrs {
		if len(addrs) > 2000 && i > 50 && i%997 != 0 {
			continue // a population of 100 000 one-entry addresses: the first 50 and a sample
		}
		want := model[a]
		got, err := rd.Get(context.Background(), c06key(a), 1<<30)
		if err != nil {
			if x.Failf("oracle", "Get fails for an indexed address", "address a%d with %d entries (batch size %d): %v", a, len(want), B, err) {
				return
			}
			continue
		}
		gotS := make([]string, len(got))
		for i, g := range got {
			gotS[i] = c06entry{g.Offset, g.Size, g.Slot, g.HasMeta(), g.IsSuccess(), g.IsVote()}.String()
		}
		wantS := make([]string, len(want))
		for i := range want {
			wantS[i] = want[len(want)-1-i].String()
		}
		if strings.Join(gotS, " ") == strings.Join(wantS, " ") {
			continue
		}
		gm, wm := map[string]int{}, map[string]int{}
		for _, g := range gotS {
			gm[g]++
		}
		for _, w := range wantS {
			wm[w]++
		}
		missing, extra := 0, 0
		for w, n := range wm {
			if gm[w] < n {
				missing += n - gm[w]
			}
		}
		for g, n := range gm {
			if wm[g] < n {
				extra += n - wm[g]
			}
		}
		sig := "address history is not in reverse order of indexing"
		if missing > 0 && extra == 0 {
			sig = "entries are missing from an address history"
		} else if extra > 0 {
			sig = "an address history contains duplicated or foreign entries"
		}
		if x.Failf("oracle", sig, "address a%d: %d indexed, %d returned, %d missing, %d extra (batch size %d, knobs %v)\n got  %s\n want %s",
			a, len(want), len(got), missing, extra, B, knobs, clipS(gotS), clipS(wantS)) {
			return
		}
	}
	// an address that never appeared must not be found
	if _, err := rd.Get(context.Background(), c06key(1<<20), 10); err == nil {
		x.Failf("oracle", "Get succeeds for an address that was never indexed", "")
	}
}

func clipS(s []string) string {
	if len(s) > 12 {
		return strings.Join(s[:6], " ") + " ... " + strings.Join(s[len(s)-6:], " ") + fmt.Sprintf(" (%d)", len(s))
	}
	return strings.Join(s, " ")
}

func mini(a, b int) int {
	if a < b {
		return a
	}
	return b
}
