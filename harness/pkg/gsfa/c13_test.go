package gsfa

import (
	"context"
	"fmt"
	"os"
	"path/filepath"

	"dsim"
	"dsim/runner"

	"github.com/gagliardetto/solana-go"
	"github.com/rpcpool/yellowstone-faithful/compactindexsized"
	"github.com/rpcpool/yellowstone-faithful/indexes"
	"github.com/rpcpool/yellowstone-faithful/indexmeta"
)

// C13 (gsfa files): a truncated pubkey index / linked log / manifest never shortens or empties a history.
func init() { runner.Register("C13G", scenarioC13G) }

func scenarioC13G(x *runner.X) {
	t := x.Tape
	B := t.Pick(2, 3, 4)
	dsim.SetKnobs(map[string]int{"gsfa.mapCap": 1 << 10, "gsfa.mapCap2": 1 << 10, "gsfa.itemsPerBatch": B})
	nAddr := t.Range(1, 4)
	nPush := t.Range(1, 12)
	dir := filepath.Join(x.TempDir(), "gsfa")
	tmp := filepath.Join(x.TempDir(), "tmp")
	os.MkdirAll(tmp, 0o755)
	w, err := NewGsfaWriter(dir, indexmeta.Meta{}, 7, c06root, indexes.NetworkMainnet, tmp)
	if err != nil {
		x.Failf("harness", "writer", "%v", err)
		return
	}
	for i := 0; i < nPush; i++ {
		keys := solana.PublicKeySlice{c06key(t.Intn(nAddr))}
		if t.Bool(0.3) {
			keys = append(keys, c06key(t.Intn(nAddr)))
		}
		if err := w.Push(uint64(1+i*3), uint64(1+t.Intn(5)), uint64(100+i), keys, t.Bool(0.5), t.Bool(0.5), t.Bool(0.5)); err != nil {
			x.Failf("harness", "push", "%v", err)
			return
		}
	}
	if err := w.Close(); err != nil {
		x.Failf("harness", "close", "%v", err)
		return
	}
	x.Digest(B, nAddr, nPush)
	x.Note("addresses", nAddr)
	x.Note("pushes", nPush)
	x.Note("batch_size_knob", B)
	read := func(d string) (map[int]string, map[int]error, error) {
		rd, err := NewGsfaReader(d)
		if err != nil {
			return nil, nil, err
		}
		defer rd.Close()
		out := map[int]string{}
		errs := map[int]error{}
		for a := 0; a < nAddr; a++ {
			got, err := rd.Get(context.Background(), c06key(a), 1<<30)
			if err != nil {
				errs[a] = err
				continue
			}
			out[a] = fmt.Sprint(got)
		}
		return out, errs, nil
	}
	want, werrs, err := read(dir)
	if err != nil {
		x.Failf("oracle", "the complete gsfa index cannot be opened", "%v", err)
		return
	}
	// addresses that never appeared are 'not found' on the complete index too: they are not stored keys
	stored := map[int]bool{}
	for a := range want {
		stored[a] = true
	}
	_ = werrs
	files, _ := os.ReadDir(dir)
	cutDir := filepath.Join(x.TempDir(), "cut")
	for _, fe := range files {
		full, err := os.ReadFile(filepath.Join(dir, fe.Name()))
		if err != nil {
			continue
		}
		step := 1
		if len(full) > 6000 {
			step = len(full) / 3000
		}
		// fresh copies of the other files once per target file; only the cut file is rewritten per offset
		os.RemoveAll(cutDir)
		os.MkdirAll(cutDir, 0o755)
		for _, other := range files {
			if other.Name() != fe.Name() {
				b, _ := os.ReadFile(filepath.Join(dir, other.Name()))
				os.WriteFile(filepath.Join(cutDir, other.Name()), b, 0o644)
			}
		}
		for k := 0; k < len(full); k += step {
			x.Probe("c13.cuts")
			x.Fault("truncate")
			os.WriteFile(filepath.Join(cutDir, fe.Name()), full[:k], 0o644)
			got, gerrs, err := read(cutDir)
			if err != nil {
				continue
			}
			for a := range stored {
				if e, failed := gerrs[a]; failed {
					if compactindexsized.IsNotFound(e) {
						if x.Failf("oracle", "a truncated gsfa index answers 'not found' for an indexed address", "%s cut at byte %d of %d: address a%d: %v", fe.Name(), k, len(full), a, e) {
							return
						}
					}
					continue
				}
				if got[a] != want[a] {
					if x.Failf("oracle", "a truncated gsfa index answers with a different history", "%s cut at byte %d of %d: address a%d\n got  %s\n want %s", fe.Name(), k, len(full), a, got[a], want[a]) {
						return
					}
				}
			}
		}
	}
}
