package splitcarfetcher

import (
	"bytes"
	"encoding/base64"
	"encoding/binary"
	"errors"
	"fmt"
	"io"
	"time"

	"dsim"
	"dsim/runner"
	"dsim/simsync"
	"dsim/simtime"

	"github.com/anjor/carlet"
)

// C16 (reader half): the split-CAR reader returns exactly header ++ piece contents.
func init() { runner.Register("C16R", scenarioC16R) }

var errC16Piece = errors.New("injected piece read error")

type c16piece struct {
	file       []byte // piece header + content + padding
	hdr, cont  int
	eofVariant bool
	failFrom   int // content offsets >= failFrom fail (<0: never)
	closed     bool
}

func (p *c16piece) ReadAt(b []byte, off int64) (int, error) {
	if s := dsim.Active(); s != nil && !s.Stopping() {
		s.Yield("piece.readat")
	}
	if off < 0 {
		return 0, errors.New("negative offset")
	}
	if off >= int64(len(p.file)) {
		return 0, io.EOF
	}
	n := copy(b, p.file[off:])
	if p.failFrom >= 0 && int(off)+n > p.hdr+p.failFrom && n > 0 {
		k := p.hdr + p.failFrom - int(off)
		if k < 0 {
			k = 0
		}
		if s := dsim.Active(); s != nil {
			s.Fault("piece-read-err")
		}
		return k, errC16Piece
	}
	if n < len(b) {
		return n, io.EOF
	}
	if p.eofVariant && int(off)+n == len(p.file) {
		return n, io.EOF
	}
	return n, nil
}
func (p *c16piece) Close() error { p.closed = true; return nil }
func (p *c16piece) Size() int64  { return int64(len(p.file)) }

func scenarioC16R(x *runner.X) {
	t := x.Tape
	r := t.SubRand()
	nPieces := t.Range(0, 6)
	if t.Bool(0.1) {
		nPieces = t.Range(7, 14) // more than the creator limit of 10
	}
	dense := t.Bool(0.7)
	hdrBytes := r.Bytes(t.Range(1, 40))
	prefix := binary.AppendUvarint(nil, uint64(len(hdrBytes)))
	model := append(append([]byte{}, prefix...), hdrBytes...)
	meta := &carlet.CarPiecesAndMetadata{OriginalCarHeader: base64.StdEncoding.EncodeToString(hdrBytes), OriginalCarHeaderSize: uint64(len(model))}
	pieces := make([]*c16piece, nPieces)
	failPiece := -1
	if nPieces > 0 && t.Bool(0.25) {
		failPiece = t.Intn(nPieces)
	}
	creatorErr := -1
	if nPieces > 0 && t.Bool(0.1) {
		creatorErr = t.Intn(nPieces)
	}
	sizes := ""
	pieceStart := make([]int, nPieces)
	for i := range pieces {
		var cont int
		if dense {
			cont = t.Range(0, 6)
		} else {
			cont = t.Pick(0, 1, 100, 5000, 70000)
		}
		hdr := t.Range(0, 5)
		pad := t.Pick(0, 0, 3)
		f := append(r.Bytes(hdr), r.Bytes(cont)...)
		f = append(f, bytes.Repeat([]byte{0xAA}, pad)...)
		p := &c16piece{file: f, hdr: hdr, cont: cont, eofVariant: t.Bool(0.5), failFrom: -1}
		if pad > 0 {
			p.eofVariant = false
		}
		if i == failPiece && cont > 0 {
			p.failFrom = t.Intn(cont)
		}
		pieces[i] = p
		pieceStart[i] = len(model)
		model = append(model, f[hdr:hdr+cont]...)
		meta.CarPieces = append(meta.CarPieces, carlet.CarFile{Name: fmt.Sprintf("piece-%d", i), HeaderSize: uint64(hdr), ContentSize: uint64(cont)})
		sizes += fmt.Sprintf("%d+%d+%d ", hdr, cont, pad)
	}
	delays := make([]int, nPieces)
	for i := range delays {
		delays[i] = t.Pick(0, 0, 1, 2, 3)
	}
	nReaders := t.Range(1, 3)
	x.Digest(len(hdrBytes), sizes, failPiece, creatorErr, fmt.Sprint(delays), nReaders)
	x.Note("original_header_bytes", len(model)-0)
	x.Note("pieces_hdr+content+pad", sizes)
	x.Note("failing_piece", failPiece)
	x.Note("creator_error_piece", creatorErr)
	total := len(model)
	// which byte ranges are poisoned by the injected piece error
	poisonFrom := -1
	if failPiece >= 0 && pieces[failPiece].failFrom >= 0 {
		poisonFrom = pieceStart[failPiece] + pieces[failPiece].failFrom
	}
	poisonEnd := -1
	if poisonFrom >= 0 {
		poisonEnd = pieceStart[failPiece] + pieces[failPiece].cont
	}

	x.Sim(runner.SimOpts{Phase: "split-car-reader", Cfg: dsim.Config{MaxSteps: 3000000, MaxSimTime: time.Hour}}, func() {
		s := dsim.Active()
		scr, err := NewSplitCarReader(meta, func(cf carlet.CarFile) (ReaderAtCloserSize, error) {
			var idx int
			fmt.Sscanf(cf.Name, "piece-%d", &idx)
			switch delays[idx] {
			case 1:
				s.Yield("creator")
			case 2:
				simtime.Sleep(time.Duration(1+idx) * time.Millisecond)
			case 3:
				s.Yield("creator")
				s.Yield("creator")
			}
			if idx == creatorErr {
				s.Fault("piece-open-err")
				return nil, fmt.Errorf("injected open error for piece %d", idx)
			}
			return pieces[idx], nil
		})
		if creatorErr >= 0 {
			if err == nil {
				s.Fail("oracle", "opening succeeded although a piece could not be opened", fmt.Sprintf("piece %d", creatorErr))
			}
			return
		}
		if err != nil {
			s.Fail("oracle", "opening a consistent set of pieces failed", err.Error())
		}
		probe := func(off, ln int) {
			p := make([]byte, ln)
			n, err := scr.ReadAt(p, int64(off))
			want := 0
			if off < total {
				want = total - off
				if want > ln {
					want = ln
				}
			}
			touches := poisonFrom >= 0 && off < poisonEnd && off+ln > poisonFrom && ln > 0
			if n > 0 && (off+n > total || !bytes.Equal(p[:n], model[off:off+n])) {
				s.Fail("oracle", "bytes differ from the concatenation of header and piece contents", fmt.Sprintf("ReadAt(off=%d,len=%d) n=%d err=%v pieces %s", off, ln, n, err, sizes))
			}
			if touches {
				if err == nil {
					s.Fail("oracle", "a piece read error did not surface as an error", fmt.Sprintf("ReadAt(off=%d,len=%d) n=%d, nil; failing range [%d,%d) pieces %s", off, ln, n, poisonFrom, poisonEnd, sizes))
				}
				return
			}
			if ln == 0 && off >= total {
				// nothing asked for at or past the end: nil and io.EOF are both acceptable
				if err != nil && err != io.EOF {
					s.Fail("oracle", "a zero-length read failed", fmt.Sprintf("ReadAt(off=%d,len=0) err=%v", off, err))
				}
				return
			}
			if off+ln <= total {
				if err != nil || n != ln {
					s.Fail("oracle", "a read inside the file did not return all bytes", fmt.Sprintf("ReadAt(off=%d,len=%d) n=%d err=%v total=%d pieces %s", off, ln, n, err, total, sizes))
				}
				return
			}
			if n != want {
				s.Fail("oracle", "a read reaching past the end returned the wrong number of bytes", fmt.Sprintf("ReadAt(off=%d,len=%d) n=%d want %d err=%v total=%d pieces %s", off, ln, n, want, err, total, sizes))
			}
			if err != io.EOF {
				s.Fail("oracle", "end of file not reported at the true end", fmt.Sprintf("ReadAt(off=%d,len=%d) n=%d err=%v total=%d pieces %s", off, ln, n, err, total, sizes))
			}
		}
		var wg simsync.WaitGroup
		for g := 0; g < nReaders; g++ {
			g := g
			wg.Add(1)
			dsim.Go(fmt.Sprintf("reader%d", g), func() {
				defer wg.Done()
				if total <= 48 {
					for off := g; off <= total+2; off += nReaders {
						for ln := 0; ln <= total+3-off+1 && ln <= total+3; ln++ {
							probe(off, ln)
						}
					}
					x.Probe("c16.exhaustive-offset-length")
					return
				}
				for i := 0; i < 60; i++ {
					off := s.Tape().Intn(total + 3)
					if s.Tape().Bool(0.5) && nPieces > 0 {
						// around a piece boundary
						off = pieceStart[s.Tape().Intn(nPieces)] - s.Tape().Intn(3)
						if off < 0 {
							off = 0
						}
					}
					ln := s.Tape().Pick(0, 1, 2, 7, 100, 4096, 80000)
					probe(off, ln)
				}
			})
		}
		wg.Wait()
		scr.Close()
		for i, p := range pieces {
			if !p.closed {
				s.Fail("oracle", "Close left a piece open", fmt.Sprintf("piece %d", i))
			}
		}
	})
}
