package splitcarfetcher

import (
	"bytes"
	"context"
	"fmt"
	"net/http"
	"testing"
	"time"

	"dsim"
	"dsim/fault"
	"dsim/runner"
	"dsim/simctx"
	"dsim/simhttp"
	"dsim/simsync"
	"dsim/simtime"
)

func TestVerif(t *testing.T) { runner.Main() }

func init() { runner.Register("C17", scenarioC17) }

type c17op struct {
	kind  int // 0 ReadAt 1 GetRange 2 SetRange(true bytes) 3 DeleteOldEntries 4 Sleep
	off   int64
	ln    int64
	sleep time.Duration
}

func (o c17op) String() string {
	switch o.kind {
	case 0:
		return fmt.Sprintf("ReadAt(%d,%d)", o.off, o.ln)
	case 1:
		return fmt.Sprintf("GetRange(%d,%d)", o.off, o.ln)
	case 2:
		return fmt.Sprintf("SetRange(%d,%d)", o.off, o.ln)
	case 3:
		return fmt.Sprintf("DeleteOld(%v)", o.sleep)
	}
	return fmt.Sprintf("Sleep(%v)", o.sleep)
}

type c17tag struct{ failing []string }

func (t *c17tag) NoteFault(kind string) {
	if kind != "http-latency" && kind != "http-head-unsupported" {
		t.failing = append(t.failing, kind)
	}
}

var c17failKinds = []string{"http-conn-err", "http-status-5xx", "http-status-404", "http-ignores-range", "http-short-body", "http-short-clean", "http-latency"}

func scenarioC17(x *runner.X) {
	t := x.Tape
	var size int
	if t.Bool(0.75) {
		size = t.Range(1, 64)
	} else {
		size = t.Pick(200, 4096, 70000)
	}
	data := t.SubRand().Bytes(size)
	nReaders := t.Range(1, 4)
	faultsOn := t.Bool(0.6)
	plan := &fault.Plan{P: map[string]float64{}, Budget: -1}
	var enabled []string
	if faultsOn {
		for _, k := range c17failKinds {
			if t.Bool(0.4) {
				plan.P[k] = []float64{0.05, 0.2, 0.5}[t.Intn(3)]
				enabled = append(enabled, k)
			}
		}
	}
	headFallback := t.Bool(0.2)
	// anchors make overlapping / nested / adjacent ranges likely
	anchors := []int64{0, int64(size), int64(size) / 2, int64(size) - 1}
	for i := 0; i < 3; i++ {
		anchors = append(anchors, int64(t.Intn(size+1)))
	}
	genRange := func() (int64, int64) {
		switch t.Intn(10) {
		case 0: // invalid: negative / past the end
			switch t.Intn(4) {
			case 0:
				return -1 - int64(t.Intn(3)), int64(t.Range(0, 4))
			case 1:
				return int64(size), int64(t.Range(1, 4))
			case 2:
				return int64(size) + int64(t.Range(1, 5)), int64(t.Range(0, 4))
			default:
				off := int64(t.Intn(size + 1))
				return off, int64(size) - off + int64(t.Range(1, 9))
			}
		case 1: // zero length
			return anchors[t.Intn(len(anchors))], 0
		}
		a := anchors[t.Intn(len(anchors))]
		b := anchors[t.Intn(len(anchors))]
		if t.Bool(0.5) {
			b = a + int64(t.Range(0, 8))
		}
		if a > b {
			a, b = b, a
		}
		if b > int64(size) {
			b = int64(size)
		}
		if a > b {
			a = b
		}
		return a, b - a
	}
	ops := make([][]c17op, nReaders)
	desc := ""
	for r := range ops {
		n := t.Range(1, 10)
		for i := 0; i < n; i++ {
			var o c17op
			switch k := t.Intn(12); {
			case k < 6:
				o.kind = 0
			case k < 8:
				o.kind = 1
			case k == 8:
				o.kind = 2
			case k == 9:
				o.kind = 3
				o.sleep = []time.Duration{0, time.Millisecond, time.Second, time.Minute}[t.Intn(4)]
			default:
				o.kind = 4
				o.sleep = []time.Duration{time.Millisecond, time.Second, 45 * time.Second, 2 * time.Minute}[t.Intn(4)]
			}
			if o.kind <= 2 {
				o.off, o.ln = genRange()
			}
			ops[r] = append(ops[r], o)
			desc += fmt.Sprintf("r%d:%s ", r, o)
		}
	}
	finalN := t.Range(2, 8)
	x.Digest(size, nReaders, desc, faultsOn, fmt.Sprint(enabled), headFallback)
	x.Note("file_size", size)
	x.Note("ops", desc)
	x.Note("faults_enabled", enabled)

	valid := func(off, ln int64) bool { return off >= 0 && ln >= 0 && off+ln <= int64(size) }

	twoFiles := t.Bool(0.25) && size >= 2
	x.Sim(runner.SimOpts{Phase: "range-cache", FaultsFlowing: false, Cfg: dsim.Config{MaxSteps: 300000, MaxSimTime: 24 * time.Hour}}, func() {
		s := dsim.Active()
		store := simhttp.NewStore()
		store.Put("/f", data)
		oldT := http.DefaultTransport
		http.DefaultTransport = store
		VerifTransport = store
		defer func() { http.DefaultTransport = oldT; VerifTransport = nil }()
		ctx, cancel := simctx.WithCancel(context.Background())
		defer cancel()
		if headFallback {
			fault.Install(&fault.Plan{P: map[string]float64{"http-head-unsupported": 1}, Budget: 1})
		}
		rd, sz, err := NewRemoteHTTPFileAsIoReaderAt(ctx, "http://remote.sim/f")
		if err != nil || sz != int64(size) {
			s.Fail("oracle", "opening the remote file failed without a remote failure", fmt.Sprintf("size=%d got %d err=%v headFallback=%v", size, sz, err, headFallback))
		}
		rr := rd.(*HTTPSingleFileRemoteReaderAt)
		// a second remote file, open at the same time, whose URL has the same path on another host
		// and different content: readers of different files must not share anything
		var rr2 *HTTPSingleFileRemoteReaderAt
		var data2 []byte
		if twoFiles {
			data2 = make([]byte, size/2+3)
			for i := range data2 {
				data2[i] = ^data[i%len(data)] ^ byte(i)
			}
			store.Put("other.sim/f", data2)
			rd2, sz2, err := NewRemoteHTTPFileAsIoReaderAt(ctx, "http://other.sim/f")
			if err != nil || sz2 != int64(len(data2)) {
				s.Fail("oracle", "opening a second remote file failed without a remote failure", fmt.Sprintf("size=%d got %d err=%v", len(data2), sz2, err))
			}
			rr2 = rd2.(*HTTPSingleFileRemoteReaderAt)
		}
		fault.Install(plan)

		checkRead := func(name string, off, ln int64, got []byte, n int, err error, tag *c17tag) {
			if n > 0 && off >= 0 && off+int64(n) <= int64(size) && !bytes.Equal(got[:n], data[off:off+int64(n)]) {
				s.Fail("oracle", name+" returned bytes that the remote does not hold at that range",
					fmt.Sprintf("%s(off=%d,len=%d) n=%d err=%v\n got  %x\n want %x\n faults in this op: %v", name, off, ln, n, err, clip(got[:n]), clip(data[off:off+int64(n)]), tag.failing))
			}
			if err == nil {
				if !valid(off, ln) {
					s.Fail("oracle", name+" reaching outside the file succeeded", fmt.Sprintf("%s(off=%d,len=%d) on a %d-byte file returned n=%d, nil", name, off, ln, size, n))
				}
				if int64(n) != ln {
					s.Fail("oracle", name+" succeeded with a short result", fmt.Sprintf("%s(off=%d,len=%d) n=%d", name, off, ln, n))
				}
				return
			}
			if valid(off, ln) && ln > 0 && off < int64(size) && len(tag.failing) == 0 {
				s.Fail("oracle", name+" of a valid range failed although no remote failure was injected into it", fmt.Sprintf("%s(off=%d,len=%d) err=%v", name, off, ln, err))
			}
		}

		var wg simsync.WaitGroup
		for r := range ops {
			r := r
			wg.Add(1)
			dsim.Go(fmt.Sprintf("reader%d", r), func() {
				defer wg.Done()
				for _, o := range ops[r] {
					tag := &c17tag{}
					s.Cur().SetTag(tag)
					switch o.kind {
					case 0:
						p := make([]byte, o.ln)
						n, err := rr.ReadAt(p, o.off)
						checkRead("ReadAt", o.off, o.ln, p, n, err, tag)
					case 1:
						v, err := rr.ca.GetRange(context.Background(), o.off, o.ln)
						checkRead("GetRange", o.off, o.ln, v, len(v), err, tag)
					case 2:
						if valid(o.off, o.ln) {
							err := rr.ca.SetRange(context.Background(), o.off, o.ln, append([]byte(nil), data[o.off:o.off+o.ln]...))
							if err != nil {
								s.Fail("oracle", "SetRange of a valid range with the true bytes failed", fmt.Sprintf("SetRange(%d,%d): %v", o.off, o.ln, err))
							}
						} else if err := rr.ca.SetRange(context.Background(), o.off, o.ln, make([]byte, maxi(o.ln, 0))); err == nil {
							s.Fail("oracle", "SetRange outside the file succeeded", fmt.Sprintf("SetRange(%d,%d) on %d bytes", o.off, o.ln, size))
						}
					case 3:
						rr.ca.DeleteOldEntries(context.Background(), o.sleep)
					case 4:
						simtime.Sleep(o.sleep)
					}
				}
			})
		}
		wg.Wait()
		fault.Stop()
		// after the fault window: every valid read succeeds with the right bytes (a failed fetch
		// was not cached; the cache recovered)
		for i := 0; i < finalN; i++ {
			var off, ln int64
			if i < len(ops[0]) && ops[0][i].kind <= 2 && valid(ops[0][i].off, ops[0][i].ln) {
				off, ln = ops[0][i].off, ops[0][i].ln
			} else {
				off = int64(s.Tape().Intn(size))
				ln = int64(s.Tape().Range(1, mini(size-int(off), 16)))
			}
			tag := &c17tag{}
			s.Cur().SetTag(tag)
			p := make([]byte, ln)
			n, err := rr.ReadAt(p, off)
			if err != nil && valid(off, ln) && ln > 0 {
				s.Fail("oracle", "ReadAt of a valid range fails after remote failures have stopped", fmt.Sprintf("ReadAt(off=%d,len=%d) err=%v", off, ln, err))
			}
			checkRead("ReadAt(after faults)", off, ln, p, n, err, tag)
		}
		if rr2 != nil {
			// (faults have stopped) the second file answers with its own bytes and its own size
			for i := 0; i < 4; i++ {
				off := int64(s.Tape().Intn(len(data2)))
				ln := int64(s.Tape().Range(1, mini(len(data2)-int(off), 16)))
				p := make([]byte, ln)
				n, err := rr2.ReadAt(p, off)
				if err != nil || int64(n) != ln || !bytes.Equal(p[:n], data2[off:off+ln]) {
					s.Fail("oracle", "a second remote file with the same URL path is answered with another file's bytes or size",
						fmt.Sprintf("ReadAt(off=%d,len=%d) on the %d-byte file: n=%d err=%v got %x want %x", off, ln, len(data2), n, err, clip(p[:n]), clip(data2[off:off+ln])))
				}
			}
			p := make([]byte, 4)
			if n, err := rr2.ReadAt(p, int64(len(data2))+2); err == nil && n > 0 {
				s.Fail("oracle", "a read past the end of the second remote file succeeded", fmt.Sprintf("n=%d on %d bytes", n, len(data2)))
			}
			rr2.ca.Close()
		}
		cancel()
		rr.ca.Close()
	})
}

func clip(b []byte) []byte {
	if len(b) > 48 {
		return b[:48]
	}
	return b
}

func mini(a, b int) int {
	if a < b {
		return a
	}
	return b
}

func maxi(a, b int64) int64 {
	if a > b {
		return a
	}
	return b
}
