package world

import (
	"bytes"
	"crypto/sha256"
	"encoding/binary"
	"fmt"
	"hash/crc64"
	"hash/fnv"

	"github.com/ipfs/go-cid"
	carv1 "github.com/ipld/go-car"
	"github.com/ipld/go-ipld-prime/codec/dagcbor"
	"github.com/ipld/go-ipld-prime/datamodel"
	cidlink "github.com/ipld/go-ipld-prime/linking/cid"
	"github.com/ipld/go-ipld-prime/node/bindnode"
	"github.com/ipld/go-ipld-prime/schema"
	"github.com/klauspost/compress/zstd"
	"github.com/rpcpool/yellowstone-faithful/ipld/ipldbindcode"
)

// DummyCid is bafkqaaa: CIDv1, codec raw (0x55), identity multihash of the empty string. A Block
// without rewards links it instead of a Rewards node; it never appears as a CAR section.
var DummyCid = mustCast([]byte{0x01, 0x55, 0x00, 0x00})

func mustCast(b []byte) cid.Cid {
	c, err := cid.Cast(b)
	if err != nil {
		panic(err)
	}
	return c
}

// CidOf computes the CID the generator assigns to a node: CIDv1, codec dag-cbor (0x71),
// multihash sha2-256 (0x12, 32 bytes) of the node bytes.
func CidOf(data []byte) cid.Cid {
	sum := sha256.Sum256(data)
	b := make([]byte, 0, 36)
	b = append(b, 0x01, 0x71, 0x12, 0x20)
	b = append(b, sum[:]...)
	return mustCast(b)
}

var crcTable = crc64.MakeTable(crc64.ISO)

// ChecksumCRC64 is the data-frame checksum of current CARs: CRC-64/ISO (polynomial 0xD8..., Go's
// crc64.ISO table) of the whole (stored, i.e. compressed) payload, kept in an IPLD Int as the
// two's-complement int64 of the uint64 value.
func ChecksumCRC64(b []byte) uint64 { return crc64.Checksum(b, crcTable) }

// ChecksumFNV is the legacy data-frame checksum (FNV-1a 64) that VerifyHash also accepts.
func ChecksumFNV(b []byte) uint64 {
	h := fnv.New64a()
	h.Write(b)
	return h.Sum64()
}

var zenc = func() *zstd.Encoder {
	e, err := zstd.NewWriter(nil, zstd.WithEncoderLevel(zstd.SpeedDefault), zstd.WithEncoderConcurrency(1), zstd.WithZeroFrames(true))
	if err != nil {
		panic(err)
	}
	return e
}()

// Compress is the zstd compression applied to metadata and rewards payloads before they are
// split into frames (a complete zstd frame, also for empty input).
func Compress(b []byte) []byte { return zenc.EncodeAll(b, nil) }

// encodeNode encodes a bound Go struct with the reference encoder: bindnode representation + dag-cbor.
func encodeNode(ptr interface{}, typ schema.Type) []byte {
	n := bindnode.Wrap(ptr, typ)
	var buf bytes.Buffer
	if err := dagcbor.Encode(n.Representation(), &buf); err != nil {
		panic(fmt.Errorf("world: dag-cbor encode of %s: %w", typ.Name(), err))
	}
	return buf.Bytes()
}

func pp(v int) **int {
	p := &v
	return &p
}

func nullInt() **int {
	var p *int
	return &p
}

func link(c cid.Cid) datamodel.Link { return cidlink.Link{Cid: c} }

// carBuilder accumulates sections.
type carBuilder struct {
	buf     bytes.Buffer
	objects []*Object
	seen    map[string]bool
}

func (cb *carBuilder) add(kind int, slot uint64, data []byte) *Object {
	c := CidOf(data)
	k := c.KeyString()
	if cb.seen[k] {
		panic(fmt.Errorf("world: duplicate CID %s (kind %s)", c, KindName(kind)))
	}
	cb.seen[k] = true
	o := &Object{Cid: c, Kind: kind, Data: data, Slot: slot, Offset: uint64(cb.buf.Len())}
	var lenBuf [binary.MaxVarintLen64]byte
	cb.buf.Write(lenBuf[:binary.PutUvarint(lenBuf[:], uint64(c.ByteLen()+len(data)))])
	cb.buf.Write(c.Bytes())
	cb.buf.Write(data)
	o.SectionLen = uint64(cb.buf.Len()) - o.Offset
	cb.objects = append(cb.objects, o)
	return o
}

// frameStyle says how the optional DataFrame fields are filled.
type frameStyle struct {
	legacy   bool // single frame with hash/index/total = null
	fnv      bool // FNV-1a instead of CRC-64/ISO
	nextMode int  // frames without successors: 0 next absent, 1 next null, 2 next empty list
}

// buildFrames splits payload into frames of at most frameBytes bytes, stores the continuation
// frames (index >= 1) as DataFrame sections in descending index order, and returns frame 0,
// which the caller embeds into its Transaction/Rewards node, plus the number of frames.
//
// Linking follows the schema comment: a head frame h links the following frames
// h+1..min(h+fanout, n-1); the last of those is the next head; every other frame has no
// successors. With fanout >= n-1 frame 0 links all frames directly.
func (cb *carBuilder) buildFrames(slot uint64, payload []byte, frameBytes, fanout int, st frameStyle) (ipldbindcode.DataFrame, int) {
	n := (len(payload) + frameBytes - 1) / frameBytes
	if n == 0 {
		n = 1
	}
	chunk := func(i int) []byte {
		lo := i * frameBytes
		hi := lo + frameBytes
		if hi > len(payload) {
			hi = len(payload)
		}
		// always a fresh non-nil slice: a nil Buffer would still encode as an empty byte string
		return append([]byte{}, payload[lo:hi]...)
	}
	var sum uint64
	if st.fnv {
		sum = ChecksumFNV(payload)
	} else {
		sum = ChecksumCRC64(payload)
	}
	// successors of each frame
	next := make([][]int, n)
	for h := 0; h < n-1; {
		last := h + fanout
		if last > n-1 {
			last = n - 1
		}
		for j := h + 1; j <= last; j++ {
			next[h] = append(next[h], j)
		}
		h = last
	}
	cids := make([]cid.Cid, n)
	var first ipldbindcode.DataFrame
	for i := n - 1; i >= 0; i-- {
		f := ipldbindcode.DataFrame{Kind: KindDataFrame, Data: chunk(i)}
		if st.legacy && n == 1 {
			f.Hash, f.Index, f.Total = nullInt(), nullInt(), nullInt()
		} else {
			f.Hash, f.Index, f.Total = pp(int(int64(sum))), pp(i), pp(n)
		}
		if len(next[i]) > 0 {
			l := make(ipldbindcode.List__Link, 0, len(next[i]))
			for _, j := range next[i] {
				l = append(l, link(cids[j]))
			}
			lp := &l
			f.Next = &lp
		} else {
			switch st.nextMode {
			case 1:
				var lp *ipldbindcode.List__Link
				f.Next = &lp
			case 2:
				l := ipldbindcode.List__Link{}
				lp := &l
				f.Next = &lp
			}
		}
		if i == 0 {
			first = f
			break
		}
		o := cb.add(KindDataFrame, slot, encodeNode(&f, ipldbindcode.Prototypes.DataFrame.Type()))
		cids[i] = o.Cid
	}
	return first, n
}

// finish prepends the CARv1 header and fixes the offsets.
func (cb *carBuilder) finish(root cid.Cid) (car []byte, headerLen int) {
	var hdr bytes.Buffer
	if err := carv1.WriteHeader(&carv1.CarHeader{Roots: []cid.Cid{root}, Version: 1}, &hdr); err != nil {
		panic(err)
	}
	headerLen = hdr.Len()
	for _, o := range cb.objects {
		o.Offset += uint64(headerLen)
	}
	car = append(hdr.Bytes(), cb.buf.Bytes()...)
	return car, headerLen
}
