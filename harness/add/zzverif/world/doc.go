// Package world generates small, well-formed synthetic Old Faithful epoch archives (CARv1 files)
// together with the ground truth they were built from, for checking the yellowstone-faithful
// index builders and RPC server against an independent model.
//
// # API
//
//	w := world.Generate(rng, params)   // pure function of the Rng draws and Params
//
// Rng is {Intn(n int) int; Uint64() uint64}. Generate uses no clock, no global randomness and
// no map iteration order: the same draws and Params give byte-identical output. Params (see the
// type; zero fields select defaults, Params.Normalize clamps) steer the epoch number, block count,
// slot gaps, entries and transactions per block, the account universe, the fractions of vote /
// failed / v0 / lookup / memo transactions, signature counts, the data-frame size and fan-out,
// big objects, missing block times / heights / rewards and the subset size.
//
// World holds the file (CAR, HeaderLen, Root), every section in file order (Objects), the
// blocks (ascending slot), the transactions (ascending slot, position), the subsets, the
// address index ByAddress (newest first) with its sorted key list Addresses, the universes
// (Accounts, Programs, Tables) and the epoch bounds FirstSlot/LastSlot. Lookups: TxBySig,
// BlockBySlot, ObjectByCid. SkippedSlots lists the block-less slots between the first and last
// block; Describe is a one-line summary. Exported helpers: CidOf, ChecksumCRC64, ChecksumFNV,
// Compress, DummyCid, KindName, RewardTypeName, the Kind* constants, SlotsPerEpoch, BigFrameBytes.
//
// Nothing of the ground truth is computed by repository code. Nodes are encoded with the
// reference encoder (ipld-prime bindnode over the repository's schema types + dagcbor.Encode),
// never with the hand-written MarshalCBOR of ipld/ipldbindcode/cbor.go; CIDs, checksums, zstd
// compression (own klauspost encoder) and the CAR framing are done here. Transactions are built
// and serialised with solana-go, metadata and rewards with the protobuf library over the
// repository's generated confirmed_block types. Generate panics if a transaction does not
// round-trip through solana.TransactionFromDecoder / MarshalBinary or if two sections get the
// same CID.
//
// # File layout
//
// CARv1: header = uvarint(len) | dag-cbor {roots:[Epoch CID], version:1} written with go-car's
// carv1.WriteHeader; then sections uvarint(len(cid)+len(data)) | cid | data. Object.Offset is the
// absolute offset of the section's varint, Object.SectionLen covers varint+cid+data; these are
// exactly the (offset, size) pairs of the cid-to-offset-and-size index and the (offset, length)
// the gsfa index keeps for Transaction nodes. Every CID is CIDv1 / dag-cbor (0x71) / sha2-256
// (36 bytes). Section varints are 1 byte (Entry nodes without transactions, small frames),
// 2 bytes (most nodes) and, with Params.BigObjects, 3 bytes (frames of 16 KiB and more).
//
// Section order, as the real car creator writes it and as the fixtures in /repo/fixtures show:
//
//	for each block, ascending slot:
//	    for each entry in order:
//	        for each transaction of the entry in order:
//	            continuation DataFrames of the transaction data   (only with SplitTxData)
//	            continuation DataFrames of the metadata
//	            Transaction node
//	        Entry node                      (Params.EntriesLast: all Entry nodes after all transactions)
//	    continuation DataFrames of the rewards, Rewards node      (absent if the block has no rewards)
//	    Block node
//	Subset nodes (consecutive runs of BlocksPerSubset blocks, ascending)
//	Epoch node (the root; always the last section)
//
// A node is always stored after every node it links to. Continuation frames of one payload are
// stored in descending index order. The frames of a transaction lie between the previous
// Transaction (or Entry/Block) node and their own Transaction node: accum.ObjectsToTransactionsAndMetadata
// (gsfa index builder) only finds them there.
//
// # Nodes (ledger.ipldsch, all tuples)
//
// The first tuple element is the kind (Transaction 0, Entry 1, Block 2, Subset 3, Epoch 4,
// Rewards 5, DataFrame 6), hence the second byte of every node is its kind; the repository
// classifies raw nodes by data[1].
//
//   - Epoch [4, epoch, [subset links]]; Subset [3, firstSlot, lastSlot, [block links]] with the
//     slots of its first and last block.
//   - Block [2, slot, shredding, [entry links], meta, rewards link]. shredding has one
//     [entryEndIdx, shredEndIdx] pair per entry, entryEndIdx = entry index, shredEndIdx = -1 or an
//     increasing shred index (negative ints are real CBOR negative ints). meta is
//     [parent_slot, blocktime, block_height] with block_height a value, null, or omitted (2-tuple);
//     Block.Height is nil for the last two. The rewards link is the Rewards node or, if the block
//     has none, the dummy CID bafkqaaa (CIDv1 raw identity, bytes 01 55 00 00), which is not a
//     section of the file.
//   - Entry [1, numHashes, hash(32 bytes), [transaction links]] (empty list when no transactions).
//   - Transaction [0, dataFrame, metadataFrame, slot, index]: both frames are embedded first
//     frames; index is the position (always present).
//   - Rewards [5, slot, dataFrame].
//   - DataFrame [6, hash, index, total, data, next]. Modern frames carry hash, index and total on
//     every frame (total = number of frames, index 0-based). `next` of a frame without successors
//     is omitted, null or an empty list (all three occur). Legacy single frames (LegacyFrameProb)
//     have hash = index = total = null and no next, like the oldest real CARs.
//
// # Data frames
//
// A payload (transaction bytes; zstd(metadata); zstd(rewards)) is cut into chunks of at most
// MaxFrameBytes bytes (BigFrameBytes for big payloads; transaction bytes are only cut with
// SplitTxData and then into max(MaxFrameBytes, 1+64*signatures) bytes so that all signatures
// stay in the first frame). An empty payload is one frame with empty data. Frame 0 is embedded in
// the owning node, frames 1..n-1 are DataFrame sections. Linking follows the schema comment: a
// head frame h links h+1..min(h+Fanout, n-1) in its next list, the last of those is the next
// head, all other frames have no successors (10 frames, fan-out 5: 0->[1..5], 5->[6..9]).
// tooling.LoadDataFromDataFrames follows next recursively, sorts by index, checks
// len == total of the first frame and verifies the hash of the first frame.
//
// hash is the checksum of the whole stored (compressed) payload: CRC-64 with Go's crc64.ISO
// table (ipldbindcode.checksumCrc64), or with FnvHashProb the legacy FNV-1a-64, which VerifyHash
// accepts as well. It is stored as the int64 with the same bits, so about half of the hashes are
// negative CBOR integers.
//
// # Transactions
//
// Tx.Raw is solana.Transaction.MarshalBinary(): compact-u16 signature count, 64-byte random
// signatures (1..3, first signatures pairwise distinct, no valid ed25519: gsfa indexing must run
// without signature verification), then a legacy message or a v0 message (prefix byte 0x80).
// Static keys: signers, writable non-signers, readonly non-signers, program ids; the non-program
// keys of a transaction (including table-loaded ones) are pairwise distinct draws from
// World.Accounts. Vote transactions are legacy, have 1..2 signatures and exactly one instruction
// whose program is Vote111111111111111111111111111111111111111: exactly what IsVote /
// IsSimpleVoteTransaction (vote.go) recognise; no other transaction uses the Vote program. v0
// transactions with lookups name 1..2 tables from World.Tables with distinct one-byte indexes;
// the loaded addresses appear in meta.loaded_writable_addresses / loaded_readonly_addresses in
// lookup order (all writable of table 1, table 2, ...; likewise readonly) and are NOT part of the
// static keys. Some non-vote transactions end with a Memo (MemoSq4g...) instruction whose data is
// Tx.Memo; the server reports it verbatim as "memo" in getSignaturesForAddress.
//
// Tx.Position ("index" in the node) is the 0-based position inside the block counting through the
// entries in order; the server sorts a block's transactions by it.
//
// Metadata: protobuf solana.storage.ConfirmedBlock.TransactionStatusMeta (deterministic
// marshalling), stored zstd-compressed (Tx.MetaStored). fee > 0 always (5000 per signature plus an
// optional priority fee), pre/post balances for static + loaded accounts (values below 2^51: the
// JSON path of the server goes through float64), log messages (always at least three lines, one
// of them salted), optionally compute_units_consumed and one inner-instructions group. Failed
// transactions carry err = bincode TransactionError::InstructionError(i, Custom(code)): bytes
// u32le 8, u8 i, u32le 25, u32le code, rendered by the server as
// {"InstructionError":[i,{"Custom":code}]}. Other error variants are deliberately not generated:
// the server's ParseTransactionError turns most of them into err=null.
//
// Rewards: protobuf confirmed_block.Rewards, stored zstd-compressed. lamports != 0 (negative for
// some Rent rewards), post_balance > 0, reward_type 1..4 (Fee, Rent, Staking, Voting), commission
// "" for Fee/Rent and "0".."100" for Staking/Voting (fields at their protobuf default would vanish
// from the server's JSON, so lamports, post_balance and reward_type are never 0). Three
// variants: no Rewards node (dummy CID, Block.Rewards nil), a node with an empty list
// (Block.Rewards empty, stored as an empty zstd frame), a node with 1..n rewards.
//
// # Slots, parents, hashes
//
// epoch(slot) = slot / 432000. Blocks have ascending slots inside the epoch, gaps are skipped
// slots. ParentSlot of a block is the previous block's slot. The first block's parent is, like in
// real epoch CARs, in the previous epoch (EpochStart-1-FirstParentGap) or, in epoch 0, slot 0
// (slot 0 is its own parent; in epoch 0 the first block is slot 0 or a slot >= 2). Only with
// DanglingFirstParent the first parent is an in-epoch slot missing from the file.
//
// Blockhash = hash of the block's last entry. PrevBlockhash = Blockhash of the parent block when
// that block is in the world (HasPrev), else zero; slot 0 has PrevBlockhash = Blockhash.
// BlockTime is in [0, 2^32) (the slot-to-blocktime index stores uint32; 0 = unknown), heights
// count up from an arbitrary base (0 for slot 0).
//
// # What the server answers (verified by TestWorldSelf)
//
//   - getBlock / gRPC GetBlock: blockhash, parentSlot, transactions in Position order, rewards in
//     list order; blockTime null (gRPC 0) when 0; blockHeight null (gRPC 0) when missing.
//     previousBlockhash is looked up only if the parent slot is in the same epoch and
//     (parent != 0 || slot == 1): then the parent MUST be in the file (else internal error, see
//     DanglingFirstParent); otherwise it is null (gRPC empty). Slot 0: parentSlot 0, blockHeight 0
//     unless stored, previousBlockhash = blockhash, blockTime = the genesis creation time (epoch 0
//     needs a genesis file in its config).
//   - getTransaction: slot, blockTime (from the blocktime index; 0 is reported as 0, not null),
//     version "legacy" or 0, transaction bytes re-encoded (base58 / base64 / base64+zstd) or as
//     JSON, metadata always as JSON. gRPC returns Tx.Raw and Tx.Meta byte for byte plus index.
//   - getBlockTime: the index value, null (gRPC 0) for 0, also for skipped slots.
//   - getSignaturesForAddress: World.ByAddress order (newest first: descending slot, then descending
//     position) inside one epoch, epochs newest first; before is exclusive, until inclusive.
//   - Lookups of ABSENT keys (skipped slots, unknown signatures or CIDs) in the compact indexes
//     give false positives with probability (entries in bucket)/2^24, because only a 24-bit hash of
//     the key is stored.
package world
