package world

import (
	"bytes"
	"encoding/binary"
	"fmt"
	"github.com/ipfs/go-cid"

	"github.com/rpcpool/yellowstone-faithful/ipld/ipldbindcode"
)

// InsertBoundaryFrames adds, for every wanted section length, one unreferenced legacy-style
// DataFrame section whose total section length (uvarint | cid | node) is exactly that number
// of bytes, and re-lays out the file. A real epoch CAR contains sections of every length; the
// lengths where the varint prefix grows (127/128, 16383/16384) are the ones a generator
// driven by content sizes hits only by luck.
//
// The frames are inserted in front of Transaction sections (positions drawn from r), i.e.
// inside a block's group of objects where unreferenced frames are legal and ignored by every
// consumer; the model (Objects, offsets, byCid) is updated in place. Lengths that cannot be
// produced exactly (dag-cbor byte-string headers grow in steps) are skipped; the number of
// frames inserted is returned.
func (w *World) InsertBoundaryFrames(r Rng, sectionLens []int) int {
	var txPos []int
	for i, o := range w.Objects {
		if o.Kind == KindTransaction {
			txPos = append(txPos, i)
		}
	}
	if len(txPos) == 0 {
		return 0
	}
	type ins struct {
		at  int
		obj *Object
	}
	var add []ins
	seen := map[string]bool{}
	for _, want := range sectionLens {
		// section = varint(36+len(node)) + 36 + len(node); search the payload length
		var node []byte
		found := false
		for dataLen := want; dataLen >= 0 && dataLen > want-64; dataLen-- {
			data := make([]byte, dataLen)
			for i := range data {
				data[i] = byte(r.Uint64())
			}
			f := ipldbindcode.DataFrame{Kind: KindDataFrame, Data: data}
			f.Hash, f.Index, f.Total = nullInt(), nullInt(), nullInt()
			node = encodeNode(&f, ipldbindcode.Prototypes.DataFrame.Type())
			var lb [binary.MaxVarintLen64]byte
			total := binary.PutUvarint(lb[:], uint64(36+len(node))) + 36 + len(node)
			if total == want {
				found = true
				break
			}
			if total < want {
				break
			}
		}
		if !found {
			continue
		}
		c := CidOf(node)
		if seen[c.KeyString()] || w.byCid[c.KeyString()] != nil {
			continue
		}
		seen[c.KeyString()] = true
		at := txPos[r.Intn(len(txPos))]
		add = append(add, ins{at: at, obj: &Object{Cid: c, Kind: KindDataFrame, Data: node, Slot: w.Objects[at].Slot}})
	}
	if len(add) == 0 {
		return 0
	}
	// merge (stable: several frames in front of the same transaction keep their order)
	out := make([]*Object, 0, len(w.Objects)+len(add))
	for i, o := range w.Objects {
		for _, a := range add {
			if a.at == i {
				out = append(out, a.obj)
			}
		}
		out = append(out, o)
	}
	var buf bytes.Buffer
	buf.Write(w.CAR[:w.HeaderLen])
	for _, o := range out {
		o.Offset = uint64(buf.Len())
		var lb [binary.MaxVarintLen64]byte
		buf.Write(lb[:binary.PutUvarint(lb[:], uint64(o.Cid.ByteLen()+len(o.Data)))])
		buf.Write(o.Cid.Bytes())
		buf.Write(o.Data)
		if o.SectionLen != 0 && o.SectionLen != uint64(buf.Len())-o.Offset {
			panic(fmt.Errorf("world: section length of %s changed on re-layout", o.Cid))
		}
		o.SectionLen = uint64(buf.Len()) - o.Offset
	}
	w.CAR = buf.Bytes()
	w.Objects = out
	for _, a := range add {
		w.byCid[a.obj.Cid.KeyString()] = a.obj
	}
	return len(add)
}

// LegacyFrame returns an old-style DataFrame (hash/index/total null) with the given payload and
// successor links (duplicates allowed: the harness uses it to build malformed frame graphs),
// as a bound struct and reference-encoded.
func LegacyFrame(data []byte, next []cid.Cid) (ipldbindcode.DataFrame, []byte) {
	f := ipldbindcode.DataFrame{Kind: KindDataFrame, Data: data}
	f.Hash, f.Index, f.Total = nullInt(), nullInt(), nullInt()
	if len(next) > 0 {
		l := make(ipldbindcode.List__Link, 0, len(next))
		for _, c := range next {
			l = append(l, link(c))
		}
		lp := &l
		f.Next = &lp
	}
	return f, encodeNode(&f, ipldbindcode.Prototypes.DataFrame.Type())
}

// HeaderVersionFirst rewrites the CAR header so that the "version" entry of its map precedes
// "roots". go-car writes roots first; the other order is the same header (a CBOR map has no
// order), has the same length, and is what other CAR writers may produce. Reports whether the
// header had the expected shape and was rewritten.
func (w *World) HeaderVersionFirst() bool {
	_, n := binary.Uvarint(w.CAR)
	if n <= 0 || w.HeaderLen <= n+16 {
		return false
	}
	hdr := w.CAR[n:w.HeaderLen]
	rootsKey := []byte("\x65roots")
	versionEntry := []byte("\x67version\x01")
	if hdr[0] != 0xa2 || !bytes.HasPrefix(hdr[1:], rootsKey) || !bytes.HasSuffix(hdr, versionEntry) {
		return false
	}
	rootsVal := hdr[1+len(rootsKey) : len(hdr)-len(versionEntry)]
	out := make([]byte, 0, len(hdr))
	out = append(out, 0xa2)
	out = append(out, versionEntry...)
	out = append(out, rootsKey...)
	out = append(out, rootsVal...)
	if len(out) != len(hdr) {
		return false
	}
	car := append([]byte(nil), w.CAR...)
	copy(car[n:w.HeaderLen], out)
	w.CAR = car
	return true
}
