package world

import (
	"fmt"
	"sort"

	"github.com/gagliardetto/solana-go"
	"github.com/ipfs/go-cid"
)

// SlotsPerEpoch is the fixed Old Faithful epoch length: epoch(slot) = slot / 432000.
const SlotsPerEpoch = 432000

// Node kinds, identical to iplddecoders.Kind in the repository. The kind is the first element
// of every node tuple, i.e. always the SECOND byte of the node's dag-cbor encoding (the first
// byte is the array header 0x83..0x86); the repository sniffs data[1] to classify nodes.
const (
	KindTransaction = 0
	KindEntry       = 1
	KindBlock       = 2
	KindSubset      = 3
	KindEpoch       = 4
	KindRewards     = 5
	KindDataFrame   = 6
)

// KindName returns the repository's name of a node kind.
func KindName(k int) string {
	switch k {
	case KindTransaction:
		return "Transaction"
	case KindEntry:
		return "Entry"
	case KindBlock:
		return "Block"
	case KindSubset:
		return "Subset"
	case KindEpoch:
		return "Epoch"
	case KindRewards:
		return "Rewards"
	case KindDataFrame:
		return "DataFrame"
	}
	return fmt.Sprintf("Kind(%d)", k)
}

// Rng is the only source of nondeterminism of Generate.
type Rng interface {
	Intn(n int) int // uniform in [0,n), n > 0
	Uint64() uint64
}

// World is one synthetic epoch: the CAR file bytes plus the ground truth it was built from.
type World struct {
	Params Params // the normalised parameters actually used (see Params.Normalize)
	Epoch  uint64
	CAR    []byte // the whole CARv1 file
	// HeaderLen is the length of the CAR header section (varint + dag-cbor header); the first
	// object starts at this offset. It equals carreader.HeaderSize / Epoch.carHeaderSize.
	HeaderLen int
	Root      cid.Cid   // the Epoch node; the single root in the CAR header
	Objects   []*Object // every section in file order
	Blocks    []*Block  // ascending slot
	Txs       []*Tx     // ascending (slot, position)
	Subsets   []*Subset // in Epoch.subsets order (ascending slots)
	// ByAddress lists, for every address mentioned by at least one transaction, the
	// transactions newest first: descending slot, then descending position. An address
	// mentions a transaction if it is a static account key of the message OR one of the
	// table-loaded addresses recorded in the metadata (the lookup-table account itself does
	// NOT count). Each transaction appears at most once per address.
	ByAddress map[solana.PublicKey][]*Tx
	// Addresses is the sorted (bytewise ascending) key set of ByAddress, for deterministic iteration.
	Addresses []solana.PublicKey
	// Accounts is the account universe transactions draw from (not all need to be used);
	// Programs the program ids; Tables the lookup-table accounts.
	Accounts, Programs, Tables []solana.PublicKey
	FirstSlot, LastSlot        uint64 // epoch bounds: Epoch*432000 .. +431999

	bySig  map[solana.Signature]*Tx
	bySlot map[uint64]*Block
	byCid  map[string]*Object
}

// Object is one CAR section.
type Object struct {
	Cid  cid.Cid
	Kind int
	// Offset is the absolute file offset of the section (of its length varint); SectionLen is
	// the length of the whole section including the varint: uvarint(len(cid)+len(data)) | cid | data.
	// These are exactly the (offset,size) pairs the cid-to-offset-and-size index stores and the
	// (offset,length) the gsfa index stores for Transaction nodes.
	Offset, SectionLen uint64
	Data               []byte // the dag-cbor node bytes (section payload after the CID)
	Slot               uint64 // slot the node belongs to (0 for Subset and Epoch nodes)
}

// VarintLen is the width of the section-length varint (1, 2 or 3 in generated worlds).
func (o *Object) VarintLen() int { return int(o.SectionLen) - o.Cid.ByteLen() - len(o.Data) }

// Entry is one PoH entry of a block.
type Entry struct {
	NumHashes int
	Hash      []byte // 32 bytes
	Txs       []*Tx  // may be empty
	Cid       cid.Cid
}

// Reward is one element of a block's rewards protobuf.
type Reward struct {
	Pubkey      string // base58
	Lamports    int64  // never 0
	PostBalance uint64 // never 0
	RewardType  int    // 1 Fee, 2 Rent, 3 Staking, 4 Voting
	Commission  string // "" (absent) or a decimal integer 0..100
}

// RewardTypeName is the string the JSON API uses for a reward type.
func RewardTypeName(t int) string {
	switch t {
	case 1:
		return "Fee"
	case 2:
		return "Rent"
	case 3:
		return "Staking"
	case 4:
		return "Voting"
	}
	return "Unknown"
}

// Block is the ground truth of one block.
type Block struct {
	Slot, ParentSlot uint64
	BlockTime        int64   // as stored in SlotMeta.blocktime; 0 means "unknown"
	Height           *uint64 // nil: block_height absent or null in the node
	Entries          []*Entry
	EntryHashes      [][]byte
	// Blockhash is the hash of the last entry. PrevBlockhash is the Blockhash of the parent
	// block if the parent is in this world (HasPrev), else zero. Slot 0 is its own parent
	// (ParentSlot 0), so for slot 0 HasPrev is true and PrevBlockhash == Blockhash, which is
	// also what the server (and Solana RPC) answer.
	Blockhash, PrevBlockhash [32]byte
	HasPrev                  bool
	Txs                      []*Tx // position order
	Cid                      cid.Cid
	// Rewards is the uncompressed rewards protobuf (confirmed_block.Rewards). HasRewardsNode
	// false: the block links the dummy CID bafkqaaa and there is no Rewards node (Rewards nil).
	// HasRewardsNode true with len(Rewards)==0: a Rewards node holding an empty list.
	Rewards        []byte
	RewardsStored  []byte // zstd(Rewards) as split into the Rewards node's data frames
	HasRewardsNode bool
	RewardsCid     cid.Cid // the dummy CID when !HasRewardsNode
	RewardList     []Reward
	RewardFrames   int // number of data frames of the rewards payload (0 without node)
	Subset         int // index into World.Subsets
}

// Tx is the ground truth of one transaction.
type Tx struct {
	Sigs []solana.Signature
	Slot uint64
	// Position is the 0-based index of the transaction inside its block, counting through the
	// entries in order; it is what Transaction.index stores and what the server sorts by.
	Position   int
	EntryIndex int    // index of the entry inside the block
	Raw        []byte // tx.MarshalBinary()
	Meta       []byte // uncompressed protobuf TransactionStatusMeta
	MetaStored []byte // as stored = zstd(Meta)
	// Static are the message's static account keys; LoadedWritable/LoadedReadonly the addresses
	// loaded through lookup tables (v0 only), equal to meta.loaded_*_addresses.
	Static, LoadedWritable, LoadedReadonly []solana.PublicKey
	IsVote, Failed, IsV0                   bool
	// ErrInstr/ErrCode: failed transactions carry TransactionError::InstructionError(ErrInstr,
	// Custom(ErrCode)); ErrBytes is its bincode encoding stored in meta.err.err.
	ErrInstr     uint8
	ErrCode      uint32
	ErrBytes     []byte
	Fee          uint64
	PreBalances  []uint64
	PostBalances []uint64
	LogMessages  []string
	ComputeUnits *uint64
	Memo         *string // data of the first Memo-program instruction, if any
	Cid          cid.Cid
	Block        *Block
	// Frames is the number of data frames of the larger payload; DataFrames/MetaFrames are the
	// individual counts (DataFrames > 1 only with Params.SplitTxData).
	Frames, DataFrames, MetaFrames int
	Object                         *Object // the Transaction node's section
}

// Sig returns the first signature (the transaction id).
func (t *Tx) Sig() solana.Signature { return t.Sigs[0] }

// Mentions returns the deduplicated addresses that mention the transaction (static keys and
// loaded addresses) in first-occurrence order.
func (t *Tx) Mentions() []solana.PublicKey {
	seen := make(map[solana.PublicKey]bool)
	var out []solana.PublicKey
	for _, l := range [][]solana.PublicKey{t.Static, t.LoadedWritable, t.LoadedReadonly} {
		for _, k := range l {
			if !seen[k] {
				seen[k] = true
				out = append(out, k)
			}
		}
	}
	return out
}

// Subset is the ground truth of one Subset node.
type Subset struct {
	First, Last uint64 // slots of the first and last block of the subset
	Blocks      []*Block
	Cid         cid.Cid
}

// TxBySig finds a transaction by its first signature.
func (w *World) TxBySig(s solana.Signature) *Tx { return w.bySig[s] }

// BlockBySlot finds a block by slot (nil for skipped or foreign slots).
func (w *World) BlockBySlot(slot uint64) *Block { return w.bySlot[slot] }

// ObjectByCid finds a CAR section by CID.
func (w *World) ObjectByCid(c cid.Cid) *Object { return w.byCid[c.KeyString()] }

// SkippedSlots returns the slots strictly between the first and the last block slot that have no block.
func (w *World) SkippedSlots() []uint64 {
	var out []uint64
	for i := 1; i < len(w.Blocks); i++ {
		for s := w.Blocks[i-1].Slot + 1; s < w.Blocks[i].Slot; s++ {
			out = append(out, s)
		}
	}
	return out
}

// Describe is a one-line summary.
func (w *World) Describe() string {
	var v1, v2, v3 int
	kinds := make([]int, 7)
	maxFrames := 0
	for _, o := range w.Objects {
		kinds[o.Kind]++
		switch o.VarintLen() {
		case 1:
			v1++
		case 2:
			v2++
		default:
			v3++
		}
	}
	var votes, failed, v0, lookups int
	for _, t := range w.Txs {
		if t.IsVote {
			votes++
		}
		if t.Failed {
			failed++
		}
		if t.IsV0 {
			v0++
		}
		if len(t.LoadedWritable)+len(t.LoadedReadonly) > 0 {
			lookups++
		}
		if t.Frames > maxFrames {
			maxFrames = t.Frames
		}
	}
	noRewards := 0
	for _, b := range w.Blocks {
		if !b.HasRewardsNode {
			noRewards++
		}
		if b.RewardFrames > maxFrames {
			maxFrames = b.RewardFrames
		}
	}
	return fmt.Sprintf("epoch=%d car=%dB objs=%d(tx=%d entry=%d block=%d subset=%d rewards=%d frame=%d) slots=%d..%d skipped=%d txs=%d(vote=%d failed=%d v0=%d lookups=%d) addrs=%d maxFrames=%d varint1/2/3=%d/%d/%d noRewards=%d frameBytes=%d",
		w.Epoch, len(w.CAR), len(w.Objects), kinds[KindTransaction], kinds[KindEntry], kinds[KindBlock], kinds[KindSubset], kinds[KindRewards], kinds[KindDataFrame],
		w.Blocks[0].Slot, w.Blocks[len(w.Blocks)-1].Slot, len(w.SkippedSlots()), len(w.Txs), votes, failed, v0, lookups, len(w.Addresses), maxFrames, v1, v2, v3, noRewards, w.Params.MaxFrameBytes)
}

func (w *World) finishIndexes() {
	w.bySig = make(map[solana.Signature]*Tx, len(w.Txs))
	w.bySlot = make(map[uint64]*Block, len(w.Blocks))
	w.byCid = make(map[string]*Object, len(w.Objects))
	w.ByAddress = make(map[solana.PublicKey][]*Tx)
	for _, b := range w.Blocks {
		w.bySlot[b.Slot] = b
	}
	for _, o := range w.Objects {
		w.byCid[o.Cid.KeyString()] = o
	}
	// newest first
	for i := len(w.Txs) - 1; i >= 0; i-- {
		t := w.Txs[i]
		w.bySig[t.Sigs[0]] = t
		for _, k := range t.Mentions() {
			if _, ok := w.ByAddress[k]; !ok {
				w.Addresses = append(w.Addresses, k)
			}
			w.ByAddress[k] = append(w.ByAddress[k], t)
		}
	}
	sort.Slice(w.Addresses, func(i, j int) bool {
		return string(w.Addresses[i][:]) < string(w.Addresses[j][:])
	})
}
