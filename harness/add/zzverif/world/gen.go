package world

import (
	"bytes"
	"encoding/binary"
	"fmt"

	bin "github.com/gagliardetto/binary"
	"github.com/gagliardetto/solana-go"
	"github.com/mr-tron/base58"
	"github.com/rpcpool/yellowstone-faithful/ipld/ipldbindcode"
	"github.com/rpcpool/yellowstone-faithful/third_party/solana_proto/confirmed_block"
	"google.golang.org/protobuf/proto"
)

type gen struct {
	r   Rng
	p   Params
	ctr uint64
	cb  *carBuilder
	w   *World

	hugeDone bool
	bigDone  bool // at least one big payload was produced
	usedSig  map[solana.Signature]bool
}

func mix64(x uint64) uint64 {
	x += 0x9e3779b97f4a7c15
	x = (x ^ (x >> 30)) * 0xbf58476d1ce4e5b9
	x = (x ^ (x >> 27)) * 0x94d049bb133111eb
	return x ^ (x >> 31)
}

// word is one Rng draw perturbed by the salt (used for byte strings only).
func (g *gen) word() uint64 {
	g.ctr++
	return g.r.Uint64() ^ mix64(g.p.Salt^mix64(g.ctr))
}

func (g *gen) bytes(n int) []byte {
	out := make([]byte, n)
	for i := 0; i < n; i += 8 {
		var w [8]byte
		binary.LittleEndian.PutUint64(w[:], g.word())
		copy(out[i:], w[:])
	}
	return out
}

const textAlphabet = "abcdefghijklmnopqrstuvwxyzABCDEFGHIJKLMNOPQRSTUVWXYZ0123456789+/"

// text returns n characters of poorly compressible ASCII.
func (g *gen) text(n int) string {
	b := g.bytes(n)
	for i := range b {
		b[i] = textAlphabet[b[i]&63]
	}
	return string(b)
}

func (g *gen) intn(n int) int { return g.r.Intn(n) }

// between returns a uniform value in [lo,hi].
func (g *gen) between(lo, hi int) int {
	if hi <= lo {
		return lo
	}
	return lo + g.r.Intn(hi-lo+1)
}

func (g *gen) chance(p float64) bool {
	if p <= 0 {
		return false
	}
	if p >= 1 {
		return true
	}
	return g.r.Intn(1<<20) < int(p*(1<<20))
}

func (g *gen) key() solana.PublicKey {
	var k solana.PublicKey
	copy(k[:], g.bytes(32))
	return k
}

// pick returns k distinct elements of pool (k <= len(pool)) in random order.
func (g *gen) pick(pool []solana.PublicKey, k int) []solana.PublicKey {
	idx := make([]int, len(pool))
	for i := range idx {
		idx[i] = i
	}
	out := make([]solana.PublicKey, 0, k)
	for i := 0; i < k; i++ {
		j := i + g.intn(len(idx)-i)
		idx[i], idx[j] = idx[j], idx[i]
		out = append(out, pool[idx[i]])
	}
	return out
}

type blockPlan struct {
	slot    uint64
	entries []int // number of transactions per entry
}

// Generate builds one world. It is a pure function of the Rng draws and p.
func Generate(r Rng, p Params) *World {
	p.Normalize()
	g := &gen{r: r, p: p, cb: &carBuilder{seen: make(map[string]bool)}, usedSig: make(map[solana.Signature]bool)}
	w := &World{Params: p, Epoch: p.Epoch, FirstSlot: p.Epoch * SlotsPerEpoch, LastSlot: p.Epoch*SlotsPerEpoch + SlotsPerEpoch - 1}
	g.w = w

	// universe
	for i := 0; i < p.NumAccounts; i++ {
		w.Accounts = append(w.Accounts, g.key())
	}
	for i := 0; i < p.NumTables; i++ {
		w.Tables = append(w.Tables, g.key())
	}
	w.Programs = []solana.PublicKey{solana.SystemProgramID, solana.TokenProgramID, g.key(), g.key()}
	for _, k := range p.ExtraAccounts {
		w.Accounts = append(w.Accounts, solana.PublicKey(k))
	}

	// plan: slots and transaction counts
	plans := make([]blockPlan, p.NumBlocks)
	slot := w.FirstSlot + uint64(p.FirstSlotOffset)
	total := 0
	for i := range plans {
		if i > 0 {
			slot++
			if g.chance(p.SkipProb) {
				skip := uint64(g.between(1, p.MaxSkip))
				// leave room for the remaining blocks
				room := w.LastSlot - slot - uint64(p.NumBlocks-1-i)
				if skip > room {
					skip = room
				}
				slot += skip
			}
		}
		plans[i].slot = slot
		ne := g.between(1, p.MaxEntries)
		if p.EmptyBlockProb > 0 && g.chance(p.EmptyBlockProb) {
			ne = 0
		}
		plans[i].entries = make([]int, ne)
		for e := range plans[i].entries {
			plans[i].entries[e] = g.between(0, p.MaxTxPerEntry)
			total += plans[i].entries[e]
		}
	}
	if total == 0 {
		bi := g.intn(len(plans))
		if len(plans[bi].entries) == 0 { // an empty block (EmptyBlockProb) was picked
			plans[bi].entries = make([]int, 1)
		}
		plans[bi].entries[g.intn(len(plans[bi].entries))] = 1
	}
	perSubset := p.BlocksPerSubset
	if perSubset == 0 {
		perSubset = g.between(1, p.NumBlocks)
	}

	baseTime := int64(g.between(1_500_000_000, 1_900_000_000))
	baseHeight := uint64(g.between(0, 200_000_000))
	if plans[0].slot == 0 {
		baseHeight = 0
	}

	var prev *Block
	for i, pl := range plans {
		b := &Block{Slot: pl.slot}
		switch {
		case prev != nil:
			b.ParentSlot = prev.Slot
		case p.DanglingFirstParent && pl.slot > 0:
			b.ParentSlot = pl.slot - 1
		case p.Epoch == 0:
			b.ParentSlot = 0
		default:
			b.ParentSlot = w.FirstSlot - 1 - uint64(p.FirstParentGap)
			if uint64(p.FirstParentGap) > w.FirstSlot-1 {
				b.ParentSlot = 0
			}
		}
		// block time
		switch {
		case g.chance(p.ZeroBlockTimeProb):
			b.BlockTime = 0
		case g.chance(p.ExtremeBlockTimeProb):
			b.BlockTime = []int64{1, 1<<31 - 1, 1 << 31, 1<<32 - 1}[g.intn(4)]
		default:
			b.BlockTime = baseTime + int64(pl.slot-plans[0].slot)*2/5
		}
		heightMode := 0 // 0 value, 1 null, 2 absent
		if g.chance(p.NoHeightProb) {
			heightMode = 1 + g.intn(2)
		} else {
			h := baseHeight + uint64(i)
			b.Height = &h
		}
		g.emitBlock(b, pl, heightMode)
		if prev != nil {
			b.PrevBlockhash, b.HasPrev = prev.Blockhash, true
		} else if b.Slot == 0 {
			b.PrevBlockhash, b.HasPrev = b.Blockhash, true
		}
		b.Subset = i / perSubset
		w.Blocks = append(w.Blocks, b)
		prev = b
	}

	// subsets and epoch
	var subsetLinks ipldbindcode.List__Link
	for lo := 0; lo < len(w.Blocks); lo += perSubset {
		hi := lo + perSubset
		if hi > len(w.Blocks) {
			hi = len(w.Blocks)
		}
		s := &Subset{First: w.Blocks[lo].Slot, Last: w.Blocks[hi-1].Slot, Blocks: w.Blocks[lo:hi]}
		node := ipldbindcode.Subset{Kind: KindSubset, First: int(s.First), Last: int(s.Last)}
		for _, b := range s.Blocks {
			node.Blocks = append(node.Blocks, link(b.Cid))
		}
		o := g.cb.add(KindSubset, 0, encodeNode(&node, ipldbindcode.Prototypes.Subset.Type()))
		s.Cid = o.Cid
		subsetLinks = append(subsetLinks, link(o.Cid))
		w.Subsets = append(w.Subsets, s)
	}
	epochNode := ipldbindcode.Epoch{Kind: KindEpoch, Epoch: int(p.Epoch), Subsets: subsetLinks}
	root := g.cb.add(KindEpoch, 0, encodeNode(&epochNode, ipldbindcode.Prototypes.Epoch.Type()))
	w.Root = root.Cid
	w.CAR, w.HeaderLen = g.cb.finish(root.Cid)
	w.Objects = g.cb.objects
	w.finishIndexes()
	return w
}

func (g *gen) frameStyle() frameStyle {
	st := frameStyle{nextMode: g.intn(3)}
	st.fnv = g.chance(g.p.FnvHashProb)
	st.legacy = g.chance(g.p.LegacyFrameProb)
	return st
}

// emitBlock generates the content of a block and appends its sections in real CAR order.
func (g *gen) emitBlock(b *Block, pl blockPlan, heightMode int) {
	p := g.p
	node := ipldbindcode.Block{Kind: KindBlock, Slot: int(b.Slot)}
	pos := 0
	shred := 0
	type pendingEntry struct {
		e    *Entry
		node ipldbindcode.Entry
	}
	var pending []pendingEntry
	flushEntry := func(pe pendingEntry) {
		o := g.cb.add(KindEntry, b.Slot, encodeNode(&pe.node, ipldbindcode.Prototypes.Entry.Type()))
		pe.e.Cid = o.Cid
		node.Entries = append(node.Entries, link(o.Cid))
	}
	for ei, ntx := range pl.entries {
		e := &Entry{NumHashes: g.between(1, 12500), Hash: g.bytes(32)}
		en := ipldbindcode.Entry{Kind: KindEntry, NumHashes: e.NumHashes, Hash: e.Hash, Transactions: ipldbindcode.List__Link{}}
		for i := 0; i < ntx; i++ {
			t := g.emitTx(b, pos, ei)
			pos++
			e.Txs = append(e.Txs, t)
			b.Txs = append(b.Txs, t)
			g.w.Txs = append(g.w.Txs, t)
			en.Transactions = append(en.Transactions, link(t.Cid))
		}
		b.Entries = append(b.Entries, e)
		b.EntryHashes = append(b.EntryHashes, e.Hash)
		sh := ipldbindcode.Shredding{EntryEndIdx: ei, ShredEndIdx: -1}
		if g.chance(0.4) || ei == len(pl.entries)-1 {
			sh.ShredEndIdx = shred
			shred += g.between(1, 3)
		}
		node.Shredding = append(node.Shredding, sh)
		if p.EntriesLast {
			pending = append(pending, pendingEntry{e, en})
		} else {
			flushEntry(pendingEntry{e, en})
		}
	}
	for _, pe := range pending {
		flushEntry(pe)
	}
	if len(b.Entries) > 0 {
		copy(b.Blockhash[:], b.Entries[len(b.Entries)-1].Hash)
	} else {
		copy(b.Blockhash[:], g.bytes(32))
	}

	// rewards
	if len(b.Entries) == 0 {
		b.RewardsCid = DummyCid // a childless block
	} else if g.chance(p.NoRewardsProb) {
		b.RewardsCid = DummyCid
	} else {
		g.emitRewards(b)
	}
	node.Rewards = link(b.RewardsCid)

	node.Meta = ipldbindcode.SlotMeta{Parent_slot: int(b.ParentSlot), Blocktime: int(b.BlockTime)}
	switch heightMode {
	case 0:
		node.Meta.Block_height = pp(int(*b.Height))
	case 1:
		node.Meta.Block_height = nullInt()
	}
	o := g.cb.add(KindBlock, b.Slot, encodeNode(&node, ipldbindcode.Prototypes.Block.Type()))
	b.Cid = o.Cid
}

// payloadFrameBytes decides whether a payload becomes "big" and which frame size applies.
func (g *gen) wantBig() bool {
	if !g.p.BigObjects {
		return false
	}
	if !g.bigDone {
		g.bigDone = true
		return true
	}
	return g.chance(0.08)
}

func (g *gen) emitRewards(b *Block) {
	p := g.p
	var list []Reward
	big := false
	if !g.chance(p.EmptyRewardsProb) {
		n := g.between(1, p.MaxRewards)
		if big = g.wantBig(); big {
			n = g.between(500, 900) // ~ 60 raw bytes each, poorly compressible
		} else if p.HugeRewards && !g.hugeDone {
			g.hugeDone = true
			big = true
			n = g.between(22000, 26000)
		} else if g.chance(0.3) {
			// steer towards multiple frames: ~45 stored bytes per reward
			n = g.between(1, 1+p.MaxFrameBytes*12/45)
			if n > 400 {
				n = 400
			}
		}
		for i := 0; i < n; i++ {
			rw := Reward{
				Pubkey:      base58.Encode(g.bytes(32)),
				Lamports:    int64(g.between(1, 1<<40)),
				PostBalance: uint64(g.between(1, 1<<50)),
				RewardType:  g.between(1, 4),
			}
			if rw.RewardType == 2 && g.chance(0.5) {
				rw.Lamports = -rw.Lamports
			}
			if rw.RewardType >= 3 {
				rw.Commission = fmt.Sprint(g.between(0, 100))
			}
			list = append(list, rw)
		}
	}
	msg := &confirmed_block.Rewards{}
	for _, rw := range list {
		msg.Rewards = append(msg.Rewards, &confirmed_block.Reward{
			Pubkey: rw.Pubkey, Lamports: rw.Lamports, PostBalance: rw.PostBalance,
			RewardType: confirmed_block.RewardType(rw.RewardType), Commission: rw.Commission,
		})
	}
	raw, err := proto.MarshalOptions{Deterministic: true}.Marshal(msg)
	if err != nil {
		panic(err)
	}
	if raw == nil {
		raw = []byte{}
	}
	b.Rewards, b.RewardList, b.HasRewardsNode = raw, list, true
	b.RewardsStored = Compress(raw)
	fb := p.MaxFrameBytes
	if big {
		fb = BigFrameBytes
	}
	st := g.frameStyle()
	first, n := g.cb.buildFrames(b.Slot, b.RewardsStored, fb, p.Fanout, st)
	b.RewardFrames = n
	node := ipldbindcode.Rewards{Kind: KindRewards, Slot: int(b.Slot), Data: first}
	o := g.cb.add(KindRewards, b.Slot, encodeNode(&node, ipldbindcode.Prototypes.Rewards.Type()))
	b.RewardsCid = o.Cid
}

func (g *gen) signature() solana.Signature {
	for {
		var s solana.Signature
		copy(s[:], g.bytes(64))
		if !g.usedSig[s] && !s.IsZero() {
			g.usedSig[s] = true
			return s
		}
	}
}

func (g *gen) emitTx(b *Block, pos, entryIndex int) *Tx {
	p := g.p
	t := &Tx{Slot: b.Slot, Position: pos, EntryIndex: entryIndex, Block: b}
	t.IsVote = g.chance(p.VoteFrac)
	t.Failed = g.chance(p.FailedFrac)
	maxSigs := p.MaxSigs
	if t.IsVote && maxSigs > 2 {
		maxSigs = 2
	}
	nsigs := g.between(1, maxSigs)
	hasLookups := false
	if !t.IsVote {
		t.IsV0 = g.chance(p.V0Frac)
		hasLookups = t.IsV0 && g.chance(p.LookupFrac)
	}
	// account roles; the non-program keys of a transaction are pairwise distinct
	nW, nR := g.between(0, 3), g.between(0, 2)
	if t.IsVote {
		nW, nR = 1, g.between(0, 2)
	}
	type lookupPlan struct{ w, r int }
	var lplans []lookupPlan
	nLoaded := 0
	if hasLookups {
		for i, nt := 0, g.between(1, 2); i < nt; i++ {
			lp := lookupPlan{g.between(0, 2), g.between(0, 2)}
			if lp.w+lp.r == 0 {
				lp.w = 1
			}
			lplans = append(lplans, lp)
			nLoaded += lp.w + lp.r
		}
	}
	// shrink to the universe
	for nsigs+nW+nR+nLoaded > len(g.w.Accounts) {
		switch {
		case nR > 0:
			nR--
		case nW > 0 && !t.IsVote:
			nW--
		case len(lplans) > 0:
			last := &lplans[len(lplans)-1]
			if last.r > 0 {
				last.r--
			} else {
				last.w--
			}
			nLoaded--
			if last.w+last.r == 0 {
				lplans = lplans[:len(lplans)-1]
			}
		default:
			nsigs--
		}
	}
	keys := g.pick(g.w.Accounts, nsigs+nW+nR+nLoaded)
	signers, writable, readonly, loaded := keys[:nsigs], keys[nsigs:nsigs+nW], keys[nsigs+nW:nsigs+nW+nR], keys[nsigs+nW+nR:]

	var programs []solana.PublicKey
	if t.IsVote {
		programs = []solana.PublicKey{solana.VoteProgramID}
	} else {
		programs = g.pick(g.w.Programs, g.between(1, 2))
	}
	withMemo := !t.IsVote && g.chance(p.MemoFrac)
	if withMemo {
		programs = append(programs, solana.MemoProgramID)
	}

	var msg solana.Message
	msg.AccountKeys = append(msg.AccountKeys, signers...)
	msg.AccountKeys = append(msg.AccountKeys, writable...)
	msg.AccountKeys = append(msg.AccountKeys, readonly...)
	firstProgram := len(msg.AccountKeys)
	msg.AccountKeys = append(msg.AccountKeys, programs...)
	msg.Header = solana.MessageHeader{
		NumRequiredSignatures:       uint8(nsigs),
		NumReadonlySignedAccounts:   uint8(g.between(0, nsigs-1)),
		NumReadonlyUnsignedAccounts: uint8(nR + len(programs)),
	}
	copy(msg.RecentBlockhash[:], g.bytes(32))
	if t.IsV0 {
		msg.SetVersion(solana.MessageVersionV0)
		li := 0
		tables := g.pick(g.w.Tables, min(len(lplans), len(g.w.Tables)))
		var lw, lr []solana.PublicKey
		for i, lp := range lplans {
			if i >= len(tables) {
				// fewer tables than planned lookups: fold the rest into the last lookup
				break
			}
			lk := solana.MessageAddressTableLookup{AccountKey: tables[i]}
			idx := g.distinctBytes(lp.w + lp.r)
			lk.WritableIndexes = idx[:lp.w]
			lk.ReadonlyIndexes = idx[lp.w:]
			lw = append(lw, loaded[li:li+lp.w]...)
			lr = append(lr, loaded[li+lp.w:li+lp.w+lp.r]...)
			li += lp.w + lp.r
			msg.AddressTableLookups = append(msg.AddressTableLookups, lk)
		}
		t.LoadedWritable, t.LoadedReadonly = lw, lr
	}
	nAll := len(msg.AccountKeys) + len(t.LoadedWritable) + len(t.LoadedReadonly)

	// instructions
	ninstr := g.between(1, 3)
	if t.IsVote {
		ninstr = 1
	}
	nPlainPrograms := len(programs)
	if withMemo {
		nPlainPrograms--
	}
	for i := 0; i < ninstr; i++ {
		ci := solana.CompiledInstruction{ProgramIDIndex: uint16(firstProgram + g.intn(nPlainPrograms))}
		for j, na := 0, g.between(0, 4); j < na; j++ {
			ci.Accounts = append(ci.Accounts, uint16(g.intn(nAll)))
		}
		dl := g.between(0, 40)
		if g.chance(0.1) {
			dl = g.between(41, 300)
		}
		ci.Data = g.bytes(dl)
		if ci.Accounts == nil {
			ci.Accounts = []uint16{}
		}
		msg.Instructions = append(msg.Instructions, ci)
	}
	if withMemo {
		memo := "memo " + g.text(g.between(1, 24))
		t.Memo = &memo
		msg.Instructions = append(msg.Instructions, solana.CompiledInstruction{
			ProgramIDIndex: uint16(len(msg.AccountKeys) - 1), Accounts: []uint16{}, Data: []byte(memo),
		})
	}
	tx := solana.Transaction{Message: msg}
	for i := 0; i < nsigs; i++ {
		tx.Signatures = append(tx.Signatures, g.signature())
	}
	raw, err := tx.MarshalBinary()
	if err != nil {
		panic(err)
	}
	// round trip through the solana-go decoder
	back, err := solana.TransactionFromDecoder(bin.NewBinDecoder(raw))
	if err != nil {
		panic(fmt.Errorf("world: generated transaction does not decode: %w", err))
	}
	if again, err := back.MarshalBinary(); err != nil || !bytes.Equal(again, raw) {
		panic(fmt.Errorf("world: generated transaction does not round-trip (%v)", err))
	}
	t.Raw, t.Sigs = raw, tx.Signatures
	t.Static = append([]solana.PublicKey(nil), msg.AccountKeys...)

	// metadata
	meta := &confirmed_block.TransactionStatusMeta{}
	t.Fee = 5000*uint64(nsigs) + uint64(g.between(0, 2))*uint64(g.between(0, 100000))
	meta.Fee = t.Fee
	for i := 0; i < nAll; i++ {
		pre := uint64(g.between(1, 1<<50))
		post := pre
		if i == 0 {
			pre += t.Fee
		} else if g.chance(0.3) {
			post += uint64(g.between(0, 1<<30))
		}
		t.PreBalances = append(t.PreBalances, pre)
		t.PostBalances = append(t.PostBalances, post)
	}
	meta.PreBalances, meta.PostBalances = t.PreBalances, t.PostBalances
	if t.Failed {
		t.ErrInstr = uint8(g.intn(ninstr))
		t.ErrCode = uint32(g.between(0, 1<<31-1))
		// bincode TransactionError::InstructionError(u8, InstructionError::Custom(u32)):
		// u32 LE variant 8, u8 instruction index, u32 LE variant 25, u32 LE code
		e := make([]byte, 0, 13)
		e = binary.LittleEndian.AppendUint32(e, 8)
		e = append(e, t.ErrInstr)
		e = binary.LittleEndian.AppendUint32(e, 25)
		e = binary.LittleEndian.AppendUint32(e, t.ErrCode)
		t.ErrBytes = e
		meta.Err = &confirmed_block.TransactionError{Err: e}
	}
	for _, k := range t.LoadedWritable {
		meta.LoadedWritableAddresses = append(meta.LoadedWritableAddresses, append([]byte(nil), k[:]...))
	}
	for _, k := range t.LoadedReadonly {
		meta.LoadedReadonlyAddresses = append(meta.LoadedReadonlyAddresses, append([]byte(nil), k[:]...))
	}
	if g.chance(0.7) {
		cu := uint64(g.between(150, 1_400_000))
		t.ComputeUnits = &cu
		meta.ComputeUnitsConsumed = &cu
	}
	if !t.IsVote && g.chance(0.3) {
		inner := &confirmed_block.InnerInstructions{Index: uint32(g.intn(ninstr))}
		for i, n := 0, g.between(1, 3); i < n; i++ {
			ii := &confirmed_block.InnerInstruction{ProgramIdIndex: uint32(firstProgram + g.intn(len(programs))), Data: g.bytes(g.between(1, 24))}
			for j, na := 0, g.between(1, 3); j < na; j++ {
				ii.Accounts = append(ii.Accounts, byte(g.intn(nAll)))
			}
			if g.chance(0.5) {
				sh := uint32(g.between(2, 4))
				ii.StackHeight = &sh
			}
			inner.Instructions = append(inner.Instructions, ii)
		}
		meta.InnerInstructions = []*confirmed_block.InnerInstructions{inner}
	}
	// log volume steers the number of metadata frames: text compresses to ~0.78 of its size
	big := g.wantBig()
	logBytes := 0
	switch {
	case big:
		logBytes = g.between(30000, 56000)
	case g.chance(0.35):
		logBytes = g.between(0, p.MaxFrameBytes*3) * 5 / 4
	case g.chance(0.3):
		logBytes = g.between(p.MaxFrameBytes*3, p.MaxFrameBytes*11) * 5 / 4
		if logBytes > 12000 {
			logBytes = 12000
		}
	}
	prog := programs[0].String()
	t.LogMessages = append(t.LogMessages, "Program "+prog+" invoke [1]")
	// always one salted line, so that no metadata payload (and no frame of it) is shared between
	// worlds with different salts
	t.LogMessages = append(t.LogMessages, "Program log: "+g.text(16))
	for logBytes > 0 {
		n := g.between(8, 120)
		if n > logBytes {
			n = logBytes
		}
		t.LogMessages = append(t.LogMessages, "Program log: "+g.text(n))
		logBytes -= n
	}
	if t.Failed {
		t.LogMessages = append(t.LogMessages, fmt.Sprintf("Program %s failed: custom program error: 0x%x", prog, t.ErrCode))
	} else {
		t.LogMessages = append(t.LogMessages, "Program "+prog+" success")
	}
	meta.LogMessages = t.LogMessages
	t.Meta, err = proto.MarshalOptions{Deterministic: true}.Marshal(meta)
	if err != nil {
		panic(err)
	}
	t.MetaStored = Compress(t.Meta)

	// sections: continuation frames first, then the Transaction node
	dataFrameBytes := len(raw) + 1
	if p.SplitTxData {
		dataFrameBytes = p.MaxFrameBytes
		if m := 1 + 64*nsigs; dataFrameBytes < m {
			dataFrameBytes = m
		}
	}
	metaFrameBytes := p.MaxFrameBytes
	if big {
		metaFrameBytes = BigFrameBytes
	}
	dataFrame, nd := g.cb.buildFrames(b.Slot, raw, dataFrameBytes, p.Fanout, g.frameStyle())
	metaFrame, nm := g.cb.buildFrames(b.Slot, t.MetaStored, metaFrameBytes, p.Fanout, g.frameStyle())
	t.DataFrames, t.MetaFrames, t.Frames = nd, nm, max(nd, nm)
	node := ipldbindcode.Transaction{Kind: KindTransaction, Data: dataFrame, Metadata: metaFrame, Slot: int(b.Slot), Index: pp(pos)}
	o := g.cb.add(KindTransaction, b.Slot, encodeNode(&node, ipldbindcode.Prototypes.Transaction.Type()))
	t.Cid, t.Object = o.Cid, o
	return t
}

// distinctBytes returns n distinct random byte values.
func (g *gen) distinctBytes(n int) []byte {
	seen := make(map[byte]bool, n)
	out := make([]byte, 0, n)
	for len(out) < n {
		v := byte(g.intn(256))
		if !seen[v] {
			seen[v] = true
			out = append(out, v)
		}
	}
	return out
}
