package splitcarfetcher

import "net/http"

// VerifTransport, when set by a simulation harness, replaces the TCP transport of every
// client this package creates. Everything above http.RoundTripper stays the real code.
var VerifTransport http.RoundTripper

func NewHTTPClient() *http.Client {
	if VerifTransport != nil {
		return &http.Client{Transport: VerifTransport}
	}
	return NewHTTPClient__orig()
}
